// vcheck is the orchestrator: it rebuilds the worker from /repo's current
// working tree, spawns worker processes over PRNG-determined case ranges,
// supervises them (crash attribution, watchdog, race-log collection),
// aggregates what the monitors observed into the evidence file and prints the
// verdict lines. It never links anko itself.
package main

import (
	"bufio"
	"bytes"
	"encoding/json"
	"fmt"
	"os"
	"os/exec"
	"os/signal"
	"path/filepath"
	"regexp"
	"sort"
	"strconv"
	"strings"
	"sync"
	"syscall"
	"time"

	"verifharness/internal/fw"
)

var (
	root    string // /verif
	harness string // /verif/harness
	repo    = "/repo"
)

func main() {
	exe, _ := os.Executable()
	root = os.Getenv("VERIF_ROOT")
	if root == "" {
		root = filepath.Dir(filepath.Dir(exe))
	}
	harness = filepath.Join(root, "harness")
	if r := os.Getenv("VERIF_REPO"); r != "" {
		repo = r
	}
	if len(os.Args) < 2 {
		usage()
	}
	switch os.Args[1] {
	case "setup":
		os.Exit(setup())
	case "run":
		if len(os.Args) < 3 {
			usage()
		}
		tier := os.Getenv("VERIF_TIER")
		if tier == "" {
			tier = "quick"
		}
		for i := 3; i < len(os.Args); i++ {
			if os.Args[i] == "--tier" && i+1 < len(os.Args) {
				tier = os.Args[i+1]
				i++
			}
		}
		os.Exit(run(os.Args[2], tier))
	case "replay":
		if len(os.Args) < 3 {
			usage()
		}
		os.Exit(replay(os.Args[2]))
	default:
		usage()
	}
}

func usage() {
	fmt.Fprintln(os.Stderr, "usage: vcheck setup | run <property> [--tier quick|thorough] | replay <path>")
	os.Exit(3)
}

func goEnv() []string {
	env := os.Environ()
	env = append(env, "GOFLAGS=-mod=mod", "GOPROXY=off", "GOSUMDB=off", "GOTOOLCHAIN=local", "CGO_ENABLED=1")
	return env
}

func seedFromEnv() int64 {
	if s := os.Getenv("VERIF_SEED"); s != "" {
		if v, err := strconv.ParseInt(s, 10, 64); err == nil {
			return v
		}
	}
	return 1
}

func setup() int {
	// warm the build cache for both flavours; bin/vcheck itself is built by the shell wrapper
	tmp, err := os.MkdirTemp("", "vcheck-setup-")
	if err != nil {
		fmt.Fprintln(os.Stderr, err)
		return 2
	}
	defer os.RemoveAll(tmp)
	for _, race := range []bool{false, true} {
		if _, err := buildWorker(tmp, race); err != nil {
			fmt.Fprintln(os.Stderr, "setup: build failed:", err)
			return 2
		}
	}
	fmt.Println("setup ok")
	return 0
}

func buildWorker(tmp string, race bool) (string, error) {
	out := filepath.Join(tmp, "vworker")
	args := []string{"build", "-tags", "verif"}
	if race {
		out += ".race"
		args = append(args, "-race")
	}
	if repo != "/repo" {
		// scratch copy of mattn/anko (seeded-change validation): same module, other replace target
		mf, err := altModfile(tmp)
		if err != nil {
			return "", err
		}
		args = append(args, "-modfile="+mf)
	}
	args = append(args, "-o", out, "./cmd/vworker")
	cmd := exec.Command("go", args...)
	cmd.Dir = harness
	cmd.Env = goEnv()
	var buf bytes.Buffer
	cmd.Stdout = &buf
	cmd.Stderr = &buf
	if err := cmd.Run(); err != nil {
		return "", fmt.Errorf("%v\n%s", err, buf.String())
	}
	return out, nil
}

// altModfile writes a copy of harness/go.mod whose replace directive points at VERIF_REPO.
func altModfile(tmp string) (string, error) {
	b, err := os.ReadFile(filepath.Join(harness, "go.mod"))
	if err != nil {
		return "", err
	}
	s := strings.Replace(string(b), "=> /repo", "=> "+repo, 1)
	mf := filepath.Join(tmp, "alt.mod")
	if err := os.WriteFile(mf, []byte(s), 0o644); err != nil {
		return "", err
	}
	if sum, err := os.ReadFile(filepath.Join(harness, "go.sum")); err == nil {
		os.WriteFile(filepath.Join(tmp, "alt.sum"), sum, 0o644)
	}
	return mf, nil
}

// buildC13 copies the repository to a scratch directory, rewrites the mutex
// types of its env package to the scheduler-aware ones, adds the verifsync
// package to the copy and builds cmd/c13sched against it.
func buildC13(tmp string) (string, int, error) {
	dst := filepath.Join(tmp, "c13repo")
	if out, err := exec.Command("rsync", "-a", "--exclude", ".git", repo+"/", dst+"/").CombinedOutput(); err != nil {
		return "", 0, fmt.Errorf("rsync: %v %s", err, out)
	}
	n, err := rewriteEnvMutexes(filepath.Join(dst, "env"))
	if err != nil {
		return "", 0, err
	}
	if n == 0 {
		return "", 0, fmt.Errorf("no sync.RWMutex / sync.Mutex found in env/*.go: the controlled scheduler has no scheduling points to work with")
	}
	tpl, err := os.ReadFile(filepath.Join(harness, "c13", "verifsync.go.tpl"))
	if err != nil {
		return "", 0, err
	}
	os.MkdirAll(filepath.Join(dst, "verifsync"), 0o755)
	if err := os.WriteFile(filepath.Join(dst, "verifsync", "verifsync.go"), tpl, 0o644); err != nil {
		return "", 0, err
	}
	b, err := os.ReadFile(filepath.Join(harness, "go.mod"))
	if err != nil {
		return "", 0, err
	}
	mf := filepath.Join(tmp, "c13.mod")
	os.WriteFile(mf, []byte(strings.Replace(string(b), "=> /repo", "=> "+dst, 1)), 0o644)
	if sum, err := os.ReadFile(filepath.Join(harness, "go.sum")); err == nil {
		os.WriteFile(filepath.Join(tmp, "c13.sum"), sum, 0o644)
	}
	out := filepath.Join(tmp, "c13sched")
	cmd := exec.Command("go", "build", "-tags", "verif c13sched", "-modfile="+mf, "-o", out, "./cmd/c13sched")
	cmd.Dir = harness
	cmd.Env = goEnv()
	var buf bytes.Buffer
	cmd.Stdout, cmd.Stderr = &buf, &buf
	if err := cmd.Run(); err != nil {
		return "", 0, fmt.Errorf("%v\n%s", err, buf.String())
	}
	return out, n, nil
}

func buildAnko(tmp string) (string, error) {
	out := filepath.Join(tmp, "anko")
	cmd := exec.Command("go", "build", "-o", out, ".")
	cmd.Dir = repo
	cmd.Env = goEnv()
	var buf bytes.Buffer
	cmd.Stdout = &buf
	cmd.Stderr = &buf
	if err := cmd.Run(); err != nil {
		return "", fmt.Errorf("%v\n%s", err, buf.String())
	}
	return out, nil
}

// ---------------------------------------------------------------------------

type violation struct {
	fw.Replay
	Hi    int `json:"hi,omitempty"`
	known *fw.Finding
	path  string
}

type agg struct {
	mu          sync.Mutex
	evals       int
	nontrivial  int
	events      int
	tags        map[string]int
	extra       map[string]int
	hashes      map[uint64]struct{}
	samples     []json.RawMessage
	viols       []*violation
	inconcl     []fw.Rec
	raceReports int
	harnessBugs []string
	phaseInfo   []map[string]interface{}
}

// once this many unlisted violations are collected the verdict is decided and
// no further chunks are scheduled
const failFastViolations = 60

type runCtx struct {
	findings   []fw.Finding
	prop, tier string
	seed       int64
	tmp        string
	plan       fw.Plan
	bins       map[bool]string
	special    map[string]string // phase name -> specially built worker
	ankoBin    string
	a          *agg
	replayMode bool
}

func run(prop, tier string) int {
	start := time.Now()
	seed := seedFromEnv()
	tmp, err := os.MkdirTemp("", "vcheck-"+prop+"-")
	if err != nil {
		fmt.Fprintln(os.Stderr, err)
		return 2
	}
	defer os.RemoveAll(tmp)

	rc := &runCtx{prop: prop, tier: tier, seed: seed, tmp: tmp, bins: map[bool]string{},
		a: &agg{tags: map[string]int{}, extra: map[string]int{}, hashes: map[uint64]struct{}{}}}

	rc.findings, _ = fw.LoadFindings(filepath.Join(root, "known_findings.json"))
	installSignalCleanup(tmp)
	bin, err := buildWorker(tmp, false)
	if err != nil {
		fmt.Printf("BUILD-FAILED property=%s: worker does not build against %s\n%v\n", prop, repo, err)
		return 2
	}
	rc.bins[false] = bin
	out, err := exec.Command(bin, "-prop", prop, "-tier", tier, "-plan").Output()
	if err != nil {
		fmt.Fprintf(os.Stderr, "plan failed: %v\n", err)
		return 2
	}
	if err := json.Unmarshal(out, &rc.plan); err != nil {
		fmt.Fprintf(os.Stderr, "plan parse: %v\n", err)
		return 2
	}
	deriveCompany(&rc.plan, prop, tier, bin)
	for _, ph := range rc.plan.Phases {
		if ph.Race && rc.bins[true] == "" {
			b, err := buildWorker(tmp, true)
			if err != nil {
				fmt.Printf("BUILD-FAILED property=%s (race flavour)\n%v\n", prop, err)
				return 2
			}
			rc.bins[true] = b
		}
		if ph.NeedsAnko && rc.ankoBin == "" {
			b, err := buildAnko(tmp)
			if err != nil {
				fmt.Printf("BUILD-FAILED property=%s (anko CLI)\n%v\n", prop, err)
				return 2
			}
			rc.ankoBin = b
		}
		if ph.Builder == "c13sched" {
			b, n, err := buildC13(tmp)
			if err != nil {
				fmt.Printf("BUILD-FAILED property=%s (controlled-scheduler worker)\n%v\n", prop, err)
				return 2
			}
			if rc.special == nil {
				rc.special = map[string]string{}
			}
			rc.special[ph.Name] = b
			rc.a.extra["mutex_fields_rewritten_in_env"] = n
		}
	}

	var companyPhases []fw.Phase
	for _, ph := range rc.plan.Phases {
		if strings.HasSuffix(ph.Name, companySuffix) {
			companyPhases = append(companyPhases, ph)
			continue
		}
		t0 := time.Now()
		rc.runPhase(ph)
		rc.a.phaseInfo = append(rc.a.phaseInfo, map[string]interface{}{
			"name": ph.Name, "race": ph.Race, "cases": ph.Cases, "exhaustive": ph.Exhaust, "wall_s": time.Since(t0).Seconds()})
	}
	// the company passes are one worker process each (quick tier): four of them at a time
	{
		var wg sync.WaitGroup
		var mu sync.Mutex
		sem := make(chan struct{}, 4)
		for _, ph := range companyPhases {
			wg.Add(1)
			go func(ph fw.Phase) {
				defer wg.Done()
				sem <- struct{}{}
				defer func() { <-sem }()
				if tier == "thorough" {
					ph.Jobs = 1
				}
				t0 := time.Now()
				rc.runPhase(ph)
				mu.Lock()
				rc.a.phaseInfo = append(rc.a.phaseInfo, map[string]interface{}{
					"name": ph.Name, "race": ph.Race, "cases": ph.Cases, "exhaustive": ph.Exhaust, "wall_s": time.Since(t0).Seconds()})
				mu.Unlock()
			}(ph)
		}
		wg.Wait()
	}

	return rc.finish(start)
}

// companyProps are the properties whose oracles judge single executions by an absolute
// reference (model, native function, law) and do not observe the process as a whole
// (goroutine states, CPU time, exit status): for these every phase of the plain build gets
// a second, shorter pass "<phase>+company" in which the same cases (same PRNG seeds) run
// while three other goroutines of the worker process execute a battery of self-checking
// programs in environments and trees of their own (cmd/vworker/company.go). The statements
// quantify over every schedule: an execution yields what it would yield alone.
var companyProps = map[string]bool{"C03": true, "C04": true, "C05": true, "C06": true, "C07": true, "C08": true, "C09": true,
	"C10": true, "C11": true, "C12": true, "C17": true, "C19": true, "C20": true}

const companySuffix = "+company"

// swallowedProps get the fixed grid of cmd/vworker/swallowed.go (round 10): a fault at a particular point of
// an expression or statement form, swallowed by ??, a catching function or try/catch, judged against the
// fault-free sibling program; every property gets the forms that are instances of its statement.
var swallowedProps = map[string]bool{"C03": true, "C04": true, "C05": true, "C06": true, "C07": true, "C08": true, "C09": true,
	"C10": true, "C11": true, "C19": true, "C20": true}

func deriveCompany(p *fw.Plan, prop, tier, bin string) {
	if os.Getenv("VERIF_NO_COMPANY") != "" {
		return
	}
	if swallowedProps[prop] {
		if out, err := exec.Command(bin, "-child", "generic-count", "swallowed", prop).Output(); err == nil {
			if n, err := strconv.Atoi(strings.TrimSpace(string(out))); err == nil && n > 0 {
				p.Phases = append(p.Phases, fw.Phase{Name: "swallowed", Cases: n, Chunk: 100, Exhaust: true, TimeoutS: 900})
			}
		}
	}
	if prop == "C14" {
		// "executions share no hidden mutable state": the battery alone, eight executions at a time in
		// environments and trees of their own, judged by its own checks (plain build) and by the race
		// detector (race build: any report with an anko frame is two executions touching one location)
		n, nr := 24, 8
		if tier == "thorough" {
			n, nr = 400, 120
		}
		p.Phases = append(p.Phases, fw.Phase{Name: "company-only", Cases: n, Chunk: 6, Jobs: 4, TimeoutS: 600},
			fw.Phase{Name: "company-only-race", Race: true, Cases: nr, Chunk: 2, Jobs: 4, TimeoutS: 900})
		return
	}
	if !companyProps[prop] {
		return
	}
	var add []fw.Phase
	for _, ph := range p.Phases {
		if ph.Race || ph.Builder != "" || ph.NeedsAnko || ph.Cases <= 0 {
			continue
		}
		chunk := ph.Chunk
		if chunk <= 0 {
			chunk = 200
		}
		// the first worker process's worth of cases (thorough: the first four)
		n := chunk
		if tier == "thorough" {
			n = 4 * chunk
		}
		if n > ph.Cases {
			n = ph.Cases
		}
		d := ph
		d.Name = ph.Name + companySuffix
		d.Cases = n
		d.Exhaust = false
		d.Jobs = 4
		if d.TimeoutS > 0 {
			d.TimeoutS *= 4
		}
		add = append(add, d)
	}
	p.Phases = append(p.Phases, add...)
}

func (rc *runCtx) unlistedSoFar() int {
	rc.a.mu.Lock()
	defer rc.a.mu.Unlock()
	n := 0
	for _, v := range rc.a.viols {
		if fw.MatchKnown(rc.findings, rc.prop, v.Sig) == nil {
			n++
		}
	}
	return n
}

func (rc *runCtx) runPhase(ph fw.Phase) {
	if ph.Cases <= 0 {
		return
	}
	chunk := ph.Chunk
	if chunk <= 0 {
		chunk = 200
	}
	jobs := ph.Jobs
	if jobs <= 0 {
		jobs = 16
	}
	if j := os.Getenv("VERIF_JOBS"); j != "" {
		if v, err := strconv.Atoi(j); err == nil && v > 0 && v < jobs {
			jobs = v
		}
	}
	type span struct{ lo, hi int }
	var spans []span
	for lo := 0; lo < ph.Cases; lo += chunk {
		hi := lo + chunk
		if hi > ph.Cases {
			hi = ph.Cases
		}
		spans = append(spans, span{lo, hi})
	}
	ch := make(chan span)
	var wg sync.WaitGroup
	var idMu sync.Mutex
	nextID := 0
	for j := 0; j < jobs; j++ {
		wg.Add(1)
		go func() {
			defer wg.Done()
			for sp := range ch {
				lo := sp.lo
				restarts := 0
				for lo < sp.hi {
					idMu.Lock()
					id := nextID
					nextID++
					idMu.Unlock()
					prefix := filepath.Join(rc.tmp, fmt.Sprintf("%s-%d", ph.Name, id))
					next := rc.runChunk(ph, lo, sp.hi, prefix)
					if next >= sp.hi {
						break
					}
					lo = next
					restarts++
					if restarts > 50 {
						rc.a.mu.Lock()
						rc.a.tags["inconclusive:too-many-worker-restarts"]++
						rc.a.mu.Unlock()
						break
					}
				}
			}
		}()
	}
	for _, sp := range spans {
		if rc.unlistedSoFar() >= failFastViolations {
			rc.a.mu.Lock()
			rc.a.tags["fail-fast:chunks-not-run"]++
			rc.a.mu.Unlock()
			continue
		}
		ch <- sp
	}
	close(ch)
	wg.Wait()
}

// runChunk runs cases [lo,hi) in one worker process; returns the index to resume from
// (hi when the chunk completed).
func (rc *runCtx) runChunk(ph fw.Phase, lo, hi int, prefix string) int {
	bin := rc.bins[ph.Race]
	if b, ok := rc.special[ph.Name]; ok {
		bin = b
	}
	args := []string{"-prop", rc.prop, "-tier", rc.tier, "-seed", strconv.FormatInt(rc.seed, 10),
		"-phase", ph.Name, "-lo", strconv.Itoa(lo), "-hi", strconv.Itoa(hi), "-out", prefix}
	if rc.replayMode {
		args = append(args, "-replay")
	}
	cmd := exec.Command(bin, args...)
	errF, _ := os.Create(prefix + ".err")
	cmd.Stderr = errF
	if rc.replayMode {
		cmd.Stdout = os.Stdout
	}
	env := os.Environ()
	env = append(env, "VERIF_KNOWN_FILE="+filepath.Join(root, "known_findings.json"), "VERIF_TMP="+rc.tmp, "VERIF_REPO="+repo, "VERIF_WORKER_BIN="+bin)
	if rc.ankoBin != "" {
		env = append(env, "VERIF_ANKO_BIN="+rc.ankoBin)
	}
	if ph.Race {
		env = append(env, "GORACE=halt_on_error=0 exitcode=0 log_path="+prefix+".race")
	}
	cmd.Env = env
	cmd.SysProcAttr = &syscall.SysProcAttr{Setpgid: true}
	if ph.MemMB > 0 && !ph.Race {
		// RLIMIT_AS through a shell-less wrapper: prlimit after start
		// (applied below once the pid exists)
	}
	if err := cmd.Start(); err != nil {
		errF.Close()
		rc.a.mu.Lock()
		rc.a.harnessBugs = append(rc.a.harnessBugs, "cannot start worker: "+err.Error())
		rc.a.mu.Unlock()
		return hi
	}
	liveMu.Lock()
	livePids[cmd.Process.Pid] = true
	liveMu.Unlock()
	defer func() {
		liveMu.Lock()
		delete(livePids, cmd.Process.Pid)
		liveMu.Unlock()
	}()
	if !ph.Race {
		// every worker runs under an address-space limit (the sandbox has none): a runaway
		// allocation ends that worker with the runtime's own out-of-memory report instead of
		// inviting the kernel's OOM killer to pick some other process
		memMB := ph.MemMB
		if memMB <= 0 {
			memMB = 8192
		}
		lim := syscall.Rlimit{Cur: uint64(memMB) << 20, Max: uint64(memMB) << 20}
		prlimit(cmd.Process.Pid, 9 /* RLIMIT_AS */, &lim)
	}
	timeout := time.Duration(ph.TimeoutS) * time.Second
	if timeout <= 0 {
		timeout = 15 * time.Minute
	}
	done := make(chan error, 1)
	go func() { done <- cmd.Wait() }()
	timedOut := false
	var werr error
	select {
	case werr = <-done:
	case <-time.After(timeout):
		timedOut = true
		syscall.Kill(-cmd.Process.Pid, syscall.SIGQUIT)
		select {
		case werr = <-done:
		case <-time.After(10 * time.Second):
			syscall.Kill(-cmd.Process.Pid, syscall.SIGKILL)
			werr = <-done
		}
	}
	errF.Close()
	// kill stray children of the worker (process group)
	syscall.Kill(-cmd.Process.Pid, syscall.SIGKILL)

	completed := rc.ingest(prefix+".res", ph, lo, hi)
	if ph.Race {
		rc.ingestRace(prefix, ph, lo, hi)
	}
	if completed && werr == nil {
		return hi
	}
	if completed && rc.replayMode {
		return hi
	}
	// the worker died (or was killed) with a case in flight
	var cur fw.Cur
	if b, err := os.ReadFile(prefix + ".cur"); err == nil {
		json.Unmarshal(bytes.TrimSpace(b), &cur)
	} else {
		cur.Case = lo
	}
	stderr := tail(prefix+".err", 200)
	if completed {
		// all cases reported but exit status non-zero: treat as death after the last case
		cur.Case = hi - 1
	}
	if ee, ok := werr.(*exec.ExitError); ok && ee.ExitCode() == 77 && !timedOut {
		// the worker ended itself after reporting the case in flight
		rc.a.mu.Lock()
		rc.a.tags["worker-bailed-after-case"]++
		rc.a.mu.Unlock()
		return cur.Case + 1
	}
	if timedOut {
		rc.a.mu.Lock()
		rc.a.tags["inconclusive:watchdog"]++
		rc.a.inconcl = append(rc.a.inconcl, fw.Rec{T: "inconc", Phase: ph.Name, Case: cur.Case, Sig: "watchdog", Detail: "wall-clock watchdog fired; " + firstLines(stderr, 5), Input: cur.Input})
		rc.a.mu.Unlock()
		return cur.Case + 1
	}
	if ee, ok := werr.(*exec.ExitError); ok {
		if ws, ok := ee.Sys().(syscall.WaitStatus); ok && ws.Signaled() && ws.Signal() == syscall.SIGKILL {
			// killed from outside (the kernel's OOM killer, an operator): nothing the code under
			// test did is observed here - a Go panic or fatal error ends the process with an exit
			// status and a report on stderr, never with SIGKILL
			rc.a.mu.Lock()
			rc.a.tags["inconclusive:worker-killed-from-outside"]++
			rc.a.inconcl = append(rc.a.inconcl, fw.Rec{T: "inconc", Phase: ph.Name, Case: cur.Case, Sig: "worker-killed-from-outside", Detail: "the worker process was ended by SIGKILL that this orchestrator did not send (out-of-memory killer?); " + firstLines(stderr, 3), Input: cur.Input})
			rc.a.mu.Unlock()
			return cur.Case + 1
		}
	}
	class, sig := classifyCrash(stderr)
	rc.a.mu.Lock()
	switch class {
	case "excluded":
		rc.a.tags["excluded:"+sig]++
	default:
		full := "crash:" + sig
		if !rc.plan.CrashIsViolation {
			full = "worker-crash:" + sig
		}
		rc.a.viols = append(rc.a.viols, &violation{Replay: fw.Replay{Property: rc.prop, Tier: rc.tier, Seed: rc.seed, Phase: ph.Name,
			Case: cur.Case, Sig: full, Detail: "worker process died: " + firstLines(stderr, 3), Input: cur.Input, Stderr: stderr}})
	}
	rc.a.mu.Unlock()
	return cur.Case + 1
}

var (
	liveMu   sync.Mutex
	livePids = map[int]bool{}
)

func installSignalCleanup(tmp string) {
	ch := make(chan os.Signal, 1)
	signal.Notify(ch, syscall.SIGINT, syscall.SIGTERM, syscall.SIGHUP)
	go func() {
		<-ch
		liveMu.Lock()
		for pid := range livePids {
			syscall.Kill(-pid, syscall.SIGKILL)
		}
		liveMu.Unlock()
		os.RemoveAll(tmp)
		os.Exit(130)
	}()
}

func prlimit(pid int, resource int, lim *syscall.Rlimit) {
	syscall.RawSyscall6(syscall.SYS_PRLIMIT64, uintptr(pid), uintptr(resource), uintptr(ptr(lim)), 0, 0, 0)
}

func (rc *runCtx) ingest(path string, ph fw.Phase, lo, hi int) (completed bool) {
	f, err := os.Open(path)
	if err != nil {
		return false
	}
	defer f.Close()
	sc := bufio.NewScanner(f)
	sc.Buffer(make([]byte, 1<<20), 256<<20)
	a := rc.a
	a.mu.Lock()
	defer a.mu.Unlock()
	for sc.Scan() {
		var r fw.Rec
		if err := json.Unmarshal(sc.Bytes(), &r); err != nil {
			continue
		}
		switch r.T {
		case "ckpt", "done":
			a.evals += r.Evals
			a.nontrivial += r.Nontrivial
			a.events += r.Events
			for k, v := range r.Tags {
				a.tags[k] += v
			}
			for k, v := range r.Extra {
				a.extra[k] += v
			}
			for _, h := range r.Hashes {
				a.hashes[h] = struct{}{}
			}
			if r.T == "done" {
				completed = true
			}
		case "sample":
			if len(a.samples) < 8 {
				a.samples = append(a.samples, r.Sample)
			}
		case "viol":
			v := &violation{Replay: fw.Replay{Property: rc.prop, Tier: rc.tier, Seed: rc.seed, Phase: ph.Name,
				Case: r.Case, Sig: r.Sig, Detail: r.Detail, Input: r.Input}}
			if strings.HasSuffix(ph.Name, companySuffix) && !rc.replayMode {
				// what was observed in company depends on what overlapped: the replay runs the whole chunk again
				v.Case, v.Hi = lo, hi
			}
			a.viols = append(a.viols, v)
		case "inconc":
			if len(a.inconcl) < 50 {
				a.inconcl = append(a.inconcl, r)
			}
		}
	}
	return completed
}

var reLine = regexp.MustCompile(`:\d+( \+0x[0-9a-f]+)?$`)

// ingestRace parses the race detector's log files of one worker process.
func (rc *runCtx) ingestRace(prefix string, ph fw.Phase, lo, hi int) {
	files, _ := filepath.Glob(prefix + ".race.*")
	for _, fpath := range files {
		b, err := os.ReadFile(fpath)
		if err != nil {
			continue
		}
		blocks := strings.Split(string(b), "WARNING: DATA RACE")
		for _, blk := range blocks[1:] {
			if i := strings.Index(blk, "=================="); i >= 0 {
				blk = blk[:i]
			}
			sig, harnessOnly := raceSignature(blk)
			rc.a.mu.Lock()
			rc.a.raceReports++
			if harnessOnly {
				rc.a.harnessBugs = append(rc.a.harnessBugs, "race confined to harness frames: "+sig)
			} else {
				rc.a.viols = append(rc.a.viols, &violation{Replay: fw.Replay{Property: rc.prop, Tier: rc.tier, Seed: rc.seed, Phase: ph.Name,
					Case: lo, Sig: "race:" + sig, Detail: "race detector report", Stderr: "WARNING: DATA RACE" + blk}, Hi: hi})
			}
			rc.a.mu.Unlock()
		}
	}
}

// raceSignature reduces a report to the sorted pair of innermost anko functions
// of its two access stacks (line numbers stripped).
func raceSignature(blk string) (string, bool) {
	// sections separated by blank lines; the first two are the access stacks
	secs := strings.Split(strings.TrimSpace(blk), "\n\n")
	var tops []string
	anyAnko := false
	for i, sec := range secs {
		if i >= 2 {
			break
		}
		top := ""
		firstFn := ""
		for _, ln := range strings.Split(sec, "\n") {
			ln = strings.TrimSpace(ln)
			if strings.HasPrefix(ln, "github.com/mattn/anko/") && top == "" {
				fn := ln
				if j := strings.LastIndex(fn, "("); j > 0 {
					fn = fn[:j]
				}
				top = strings.TrimPrefix(fn, "github.com/mattn/anko/")
			}
			if firstFn == "" && strings.Contains(ln, "(") && !strings.HasPrefix(ln, "/") && !strings.Contains(ln, " by ") {
				firstFn = ln[:strings.LastIndex(ln, "(")]
			}
		}
		if top != "" {
			anyAnko = true
			tops = append(tops, top)
		} else {
			tops = append(tops, "~"+firstFn)
		}
	}
	sort.Strings(tops)
	return strings.Join(tops, "|"), !anyAnko
}

var (
	reAnkoFrame = regexp.MustCompile(`github\.com/mattn/anko/([A-Za-z0-9_/]+)\.([^\s(]+)\(`)
	reNum       = regexp.MustCompile(`-?\d+`)
	reHex       = regexp.MustCompile(`0x[0-9a-f]+`)
)

// classifyCrash turns a dead worker's stderr into (class, signature).
func classifyCrash(stderr string) (string, string) {
	low := stderr
	switch {
	case strings.Contains(low, "stack overflow") || strings.Contains(low, "goroutine stack exceeds"):
		return "excluded", "stack-exhaustion"
	case strings.Contains(low, "out of memory") || strings.Contains(low, "cannot allocate memory") || strings.Contains(low, "runtime: cannot map pages"):
		return "excluded", "memory-exhaustion"
	case strings.Contains(low, "fatal error: concurrent map"):
		// a script container shared between script goroutines is outside the guarantee;
		// the environment's own tables are not: decide by the faulting goroutine's frames
		if i := strings.Index(low, "\n\ngoroutine "); i >= 0 {
			first := low[i+2:]
			if j := strings.Index(first, "\n\n"); j > 0 {
				first = first[:j]
			}
			ei := strings.Index(first, "github.com/mattn/anko/env.")
			vi := strings.Index(first, "github.com/mattn/anko/vm.")
			if ei >= 0 && (vi < 0 || ei < vi) {
				fn := first[ei:]
				if k := strings.Index(fn, "("); k > 0 {
					if k2 := strings.Index(fn[k+1:], "("); k2 > 0 && strings.HasPrefix(fn[k:], "(*Env)") {
						k = k + 1 + k2
					}
					fn = fn[:k]
				}
				return "violation", strings.TrimPrefix(fn, "github.com/mattn/anko/") + ":fatal error: concurrent map access inside the environment"
			}
		}
		return "excluded", "concurrent-map-access-between-script-goroutines"
	}
	msg := ""
	for _, ln := range strings.Split(stderr, "\n") {
		if strings.HasPrefix(ln, "panic: ") || strings.HasPrefix(ln, "fatal error: ") {
			msg = ln
			break
		}
	}
	if msg == "" {
		if strings.Contains(stderr, "SIGSEGV") {
			msg = "SIGSEGV"
		} else {
			msg = "died:" + firstLines(stderr, 1)
		}
	}
	msg = reHex.ReplaceAllString(msg, "N")
	msg = reNum.ReplaceAllString(msg, "N")
	if len(msg) > 120 {
		msg = msg[:120]
	}
	site := ""
	if m := reAnkoFrame.FindStringSubmatch(stderr); m != nil {
		site = m[1] + "." + m[2]
	}
	return "violation", site + ":" + msg
}

func tail(path string, n int) string {
	b, err := os.ReadFile(path)
	if err != nil {
		return ""
	}
	lines := strings.Split(string(b), "\n")
	// keep the head (panic message) and a bounded number of lines
	if len(lines) > n {
		lines = lines[:n]
	}
	return strings.Join(lines, "\n")
}

func firstLines(s string, n int) string {
	lines := strings.Split(s, "\n")
	if len(lines) > n {
		lines = lines[:n]
	}
	return strings.Join(lines, " | ")
}

// ---------------------------------------------------------------------------

func (rc *runCtx) finish(start time.Time) int {
	a := rc.a
	findings, ferr := fw.LoadFindings(filepath.Join(root, "known_findings.json"))
	if ferr != nil {
		fmt.Fprintln(os.Stderr, "known_findings.json:", ferr)
	}
	replDir := filepath.Join(root, "replays", rc.prop)
	os.MkdirAll(replDir, 0o755)

	// group violations by signature
	bySig := map[string][]*violation{}
	var sigs []string
	for _, v := range a.viols {
		if _, ok := bySig[v.Sig]; !ok {
			sigs = append(sigs, v.Sig)
		}
		bySig[v.Sig] = append(bySig[v.Sig], v)
	}
	sort.Strings(sigs)
	unlisted := 0
	knownSeen := map[string]int{}
	var violSummary []map[string]interface{}
	for _, sig := range sigs {
		vs := bySig[sig]
		k := fw.MatchKnown(findings, rc.prop, sig)
		if k != nil {
			knownSeen[k.Sig+"\x00"+k.What] += len(vs)
			violSummary = append(violSummary, map[string]interface{}{"sig": sig, "count": len(vs), "known_finding": k.What})
			continue
		}
		unlisted += len(vs)
		// write up to 3 replay files per signature
		for i, v := range vs {
			if i >= 3 {
				break
			}
			name := fmt.Sprintf("%s-%016x-%d.json", rc.tier, fw.Hash64(sig), i)
			v.path = filepath.Join(replDir, name)
			b, _ := json.MarshalIndent(v, "", " ")
			os.WriteFile(v.path, b, 0o644)
			fmt.Printf("VIOLATION property=%s replay=%s\n", rc.prop, v.path)
			fmt.Printf("  signature: %s\n  detail: %s\n", sig, clip(v.Detail, 600))
		}
		violSummary = append(violSummary, map[string]interface{}{"sig": sig, "count": len(vs)})
	}
	for _, f := range findings {
		if f.Property != rc.prop || f.Status != "known" {
			continue
		}
		n := knownSeen[f.Sig+"\x00"+f.What]
		if n > 0 {
			fmt.Printf("KNOWN-FINDING: property=%s %s (observed %d times this run)\n", rc.prop, f.What, n)
		} else {
			fmt.Printf("KNOWN-FINDING: property=%s %s (listed; not exercised by this run's cases)\n", rc.prop, f.What)
		}
	}

	excluded, inconclusive := 0, 0
	for k, v := range a.tags {
		if strings.HasPrefix(k, "excluded:") {
			excluded += v
		}
		if strings.HasPrefix(k, "inconclusive:") {
			inconclusive += v
		}
	}
	exhaustive := len(rc.plan.Phases) > 0
	for _, ph := range rc.plan.Phases {
		if !ph.Exhaust {
			exhaustive = false
		}
	}
	cov := map[string]interface{}{
		"evaluations":         a.evals,
		"distinct_nontrivial": len(a.hashes),
		"nontrivial_total":    a.nontrivial,
		"rule":                rc.plan.Rule,
		"samples":             a.samples,
		"events_observed":     a.events,
		"coverage_tags":       a.tags,
		"counters":            a.extra,
		"excluded":            excluded,
		"inconclusive":        inconclusive,
		"race_reports":        a.raceReports,
		"phases":              a.phaseInfo,
		"violation_summary":   violSummary,
	}
	if exhaustive {
		cov["exhaustive"] = true
	}
	if len(a.inconcl) > 0 {
		cov["inconclusive_cases"] = a.inconcl
	}
	if a.samples == nil {
		cov["samples"] = []interface{}{}
	}
	ev := map[string]interface{}{
		"property_id": rc.prop,
		"tier":        rc.tier,
		"seed":        rc.seed,
		"level":       rc.plan.Level,
		"coverage":    cov,
		"assumptions": rc.plan.Assumptions,
		"wall_s":      time.Since(start).Seconds(),
		"violations":  unlisted,
	}
	if !rc.replayMode && repo == "/repo" { // scratch-copy runs (VERIF_REPO) never write evidence
		os.MkdirAll(filepath.Join(root, "evidence"), 0o755)
		b, _ := json.MarshalIndent(ev, "", " ")
		os.WriteFile(filepath.Join(root, "evidence", rc.prop+".json"), append(b, '\n'), 0o644)
	}

	fmt.Printf("SUMMARY property=%s tier=%s seed=%d evaluations=%d distinct_nontrivial=%d events=%d excluded=%d inconclusive=%d race_reports=%d violations=%d known=%d wall=%.1fs\n",
		rc.prop, rc.tier, rc.seed, a.evals, len(a.hashes), a.events, excluded, inconclusive, a.raceReports, unlisted, len(a.viols)-unlisted, time.Since(start).Seconds())

	if len(a.harnessBugs) > 0 {
		for _, h := range a.harnessBugs {
			fmt.Printf("HARNESS-BUG property=%s %s\n", rc.prop, h)
		}
		return 2
	}
	if unlisted > 0 {
		return 1
	}
	if !rc.replayMode && (a.evals == 0 || len(a.hashes) < 2) {
		fmt.Printf("NO-EVIDENCE property=%s: the monitors observed nothing (evaluations=%d distinct=%d)\n", rc.prop, a.evals, len(a.hashes))
		return 2
	}
	return 0
}

func clip(s string, n int) string {
	if len(s) > n {
		return s[:n] + "…"
	}
	return s
}

// ---------------------------------------------------------------------------

func replay(path string) int {
	b, err := os.ReadFile(path)
	if err != nil {
		fmt.Fprintln(os.Stderr, err)
		return 2
	}
	var v violation
	if err := json.Unmarshal(b, &v); err != nil {
		fmt.Fprintln(os.Stderr, err)
		return 2
	}
	tmp, err := os.MkdirTemp("", "vcheck-replay-")
	if err != nil {
		fmt.Fprintln(os.Stderr, err)
		return 2
	}
	defer os.RemoveAll(tmp)
	rc := &runCtx{prop: v.Property, tier: v.Tier, seed: v.Seed, tmp: tmp, bins: map[bool]string{}, replayMode: true,
		a: &agg{tags: map[string]int{}, extra: map[string]int{}, hashes: map[uint64]struct{}{}}}
	bin, err := buildWorker(tmp, false)
	if err != nil {
		fmt.Println("BUILD-FAILED", err)
		return 2
	}
	rc.bins[false] = bin
	out, err := exec.Command(bin, "-prop", v.Property, "-tier", v.Tier, "-plan").Output()
	if err != nil {
		return 2
	}
	json.Unmarshal(out, &rc.plan)
	deriveCompany(&rc.plan, v.Property, v.Tier, bin)
	for _, ph := range rc.plan.Phases {
		if ph.Name != v.Phase {
			continue
		}
		if ph.Race {
			b, err := buildWorker(tmp, true)
			if err != nil {
				fmt.Println("BUILD-FAILED", err)
				return 2
			}
			rc.bins[true] = b
		}
		if ph.NeedsAnko {
			b, err := buildAnko(tmp)
			if err != nil {
				fmt.Println("BUILD-FAILED", err)
				return 2
			}
			rc.ankoBin = b
		}
		hi := v.Case + 1
		if v.Hi > hi {
			hi = v.Hi
		}
		rc.runChunk(ph, v.Case, hi, filepath.Join(tmp, "replay"))
		// a replay reproduces when the same signature is observed again
		for _, nv := range rc.a.viols {
			if nv.Sig == v.Sig {
				fmt.Printf("VIOLATION property=%s replay=%s\n  signature: %s\n  detail: %s\n", v.Property, path, nv.Sig, clip(nv.Detail, 2000))
				return 1
			}
		}
		fmt.Printf("replay of %s: signature %q not reproduced (%d other violations)\n", path, v.Sig, len(rc.a.viols))
		return 0
	}
	fmt.Fprintln(os.Stderr, "phase not found:", v.Phase)
	return 2
}
