package main

import (
	"go/ast"
	"go/parser"
	"go/printer"
	"go/token"
	"os"
	"path/filepath"
	"strconv"
	"strings"
)

// rewriteEnvMutexes replaces the types sync.RWMutex / sync.Mutex by
// verifsync.RWMutex / verifsync.Mutex in the non-test files of dir and returns
// the number of replaced type references.
func rewriteEnvMutexes(dir string) (int, error) {
	files, err := filepath.Glob(filepath.Join(dir, "*.go"))
	if err != nil {
		return 0, err
	}
	total := 0
	for _, f := range files {
		if strings.HasSuffix(f, "_test.go") {
			continue
		}
		fset := token.NewFileSet()
		af, err := parser.ParseFile(fset, f, nil, parser.ParseComments)
		if err != nil {
			return 0, err
		}
		// local name of the sync import
		syncName := ""
		for _, im := range af.Imports {
			if p, _ := strconv.Unquote(im.Path.Value); p == "sync" {
				syncName = "sync"
				if im.Name != nil {
					syncName = im.Name.Name
				}
			}
		}
		if syncName == "" {
			continue
		}
		n, other := 0, 0
		ast.Inspect(af, func(nd ast.Node) bool {
			sel, ok := nd.(*ast.SelectorExpr)
			if !ok {
				return true
			}
			id, ok := sel.X.(*ast.Ident)
			if !ok || id.Name != syncName {
				return true
			}
			if sel.Sel.Name == "RWMutex" || sel.Sel.Name == "Mutex" {
				id.Name = "verifsync"
				n++
			} else {
				other++
			}
			return true
		})
		if n == 0 {
			continue
		}
		total += n
		// imports: add verifsync, drop sync when nothing else uses it
		for _, decl := range af.Decls {
			gd, ok := decl.(*ast.GenDecl)
			if !ok || gd.Tok != token.IMPORT {
				continue
			}
			var specs []ast.Spec
			for _, sp := range gd.Specs {
				im := sp.(*ast.ImportSpec)
				if p, _ := strconv.Unquote(im.Path.Value); p == "sync" && other == 0 {
					continue
				}
				specs = append(specs, sp)
			}
			specs = append(specs, &ast.ImportSpec{Path: &ast.BasicLit{Kind: token.STRING, Value: strconv.Quote("github.com/mattn/anko/verifsync")}})
			gd.Specs = specs
			if len(specs) > 1 && !gd.Lparen.IsValid() {
				gd.Lparen = gd.Pos()
				gd.Rparen = gd.End()
			}
			break
		}
		out, err := os.Create(f)
		if err != nil {
			return 0, err
		}
		if err := printer.Fprint(out, fset, af); err != nil {
			out.Close()
			return 0, err
		}
		out.Close()
	}
	return total, nil
}
