package main

import (
	"syscall"
	"unsafe"
)

func ptr(l *syscall.Rlimit) unsafe.Pointer { return unsafe.Pointer(l) }
