// Package verifsync is copied into a scratch copy of mattn/anko by the C13
// check; the copy's env package uses these types instead of sync.RWMutex /
// sync.Mutex. Every Lock/RLock/Unlock/RUnlock is a scheduling point of a
// cooperative scheduler that lets exactly one managed goroutine run between
// points and simulates the lock state itself (writer-preferring RW lock, like
// Go's), so a blocked acquisition is simply "not enabled" and a state with
// unfinished goroutines and nothing enabled is a deadlock.
package verifsync

import "fmt"

type want int

const (
	wantNothing want = iota
	wantPoint
	wantLock
	wantRLock
)

type gor struct {
	id     int
	resume chan struct{}
	want   want
	m      *RWMutex
	done   bool
	Panic  string
}

var (
	active bool
	cur    *gor
	parked chan *gor
	clock  int64
	// Points counts scheduling points of the current execution per kind
	Points map[string]int
)

// RWMutex has the method set of sync.RWMutex.
type RWMutex struct {
	w     bool
	r     int
	wwait int
	// who holds it (ids of managed goroutines), for naming the goroutines on a wait-for cycle
	wh int
	rh []int
}

// Mutex has the method set of sync.Mutex.
type Mutex struct{ rw RWMutex }

func (m *Mutex) Lock()   { m.rw.Lock() }
func (m *Mutex) Unlock() { m.rw.Unlock() }

func park(g *gor) {
	parked <- g
	<-g.resume
}

func (m *RWMutex) Lock() {
	if !active {
		m.w = true
		return
	}
	g := cur
	g.want, g.m = wantLock, m
	m.wwait++
	Points["Lock"]++
	park(g) // the controller sets m.w when it grants
}

func (m *RWMutex) Unlock() {
	m.w = false
	if active {
		g := cur
		g.want = wantPoint
		Points["Unlock"]++
		park(g)
	}
}

func (m *RWMutex) RLock() {
	if !active {
		m.r++
		return
	}
	g := cur
	g.want, g.m = wantRLock, m
	Points["RLock"]++
	park(g)
}

func (m *RWMutex) RUnlock() {
	m.r--
	if active {
		g := cur
		for i := len(m.rh) - 1; i >= 0; i-- {
			if m.rh[i] == g.id || i == 0 {
				m.rh = append(m.rh[:i], m.rh[i+1:]...)
				break
			}
		}
		g.want = wantPoint
		Points["RUnlock"]++
		park(g)
	}
}

// Yield is an explicit scheduling point (operation boundaries).
func Yield() {
	if active {
		g := cur
		g.want = wantPoint
		park(g)
	}
}

// Tick advances and returns the logical clock.
func Tick() int64 { clock++; return clock }

func enabled(g *gor) bool {
	if g.done {
		return false
	}
	switch g.want {
	case wantLock:
		return !g.m.w && g.m.r == 0
	case wantRLock:
		return !g.m.w && g.m.wwait == 0
	}
	return true
}

// Choice describes one scheduling decision.
type Choice struct {
	Enabled []int
	Cur     int // goroutine that ran last (-1 at the start); it is "preempted" if still enabled and not chosen
	Chosen  int
}

// Result of one controlled execution.
type Result struct {
	Choices  []Choice
	Deadlock bool
	Blocked  []string // description of the blocked goroutines at a deadlock
	Cycle    []int    // the blocked goroutines that wait, directly or through others, for a lock they themselves keep another from releasing
	Panics   []string
}

// Run executes body(0..n-1) on n managed goroutines under the scheduler.
// choose picks one of the enabled goroutine ids.
func Run(n int, body func(id int), choose func(step int, enabled []int, cur int) int) Result {
	var res Result
	gs := make([]*gor, n)
	parked = make(chan *gor)
	Points = map[string]int{}
	clock = 0
	active = true
	for i := 0; i < n; i++ {
		g := &gor{id: i, resume: make(chan struct{}), want: wantPoint}
		gs[i] = g
		go func() {
			<-g.resume
			defer func() {
				if r := recover(); r != nil {
					g.Panic = fmt.Sprint(r)
				}
				g.done = true
				parked <- g
			}()
			body(g.id)
		}()
	}
	last := -1
	for step := 0; ; step++ {
		var en []int
		undone := 0
		for _, g := range gs {
			if !g.done {
				undone++
			}
			if enabled(g) {
				en = append(en, g.id)
			}
		}
		if undone == 0 {
			break
		}
		if len(en) == 0 {
			res.Deadlock = true
			for _, g := range gs {
				if !g.done {
					res.Blocked = append(res.Blocked, fmt.Sprintf("g%d waits for %s", g.id, map[want]string{wantLock: "Lock", wantRLock: "RLock"}[g.want]))
				}
			}
			// the wait-for graph: a goroutine waits for the holders of the lock it wants (a reader
			// stopped by a queued writer waits for that writer)
			edges := map[int][]int{}
			for _, g := range gs {
				if g.done || g.m == nil {
					continue
				}
				switch {
				case g.want == wantLock:
					if g.m.w {
						edges[g.id] = append(edges[g.id], g.m.wh)
					}
					edges[g.id] = append(edges[g.id], g.m.rh...)
				case g.want == wantRLock && g.m.w:
					edges[g.id] = append(edges[g.id], g.m.wh)
				case g.want == wantRLock:
					for _, h := range gs {
						if !h.done && h.want == wantLock && h.m == g.m {
							edges[g.id] = append(edges[g.id], h.id)
						}
					}
				}
			}
			for _, g := range gs {
				seen := map[int]bool{}
				stack := append([]int(nil), edges[g.id]...)
				for len(stack) > 0 {
					x := stack[len(stack)-1]
					stack = stack[:len(stack)-1]
					if x == g.id {
						res.Cycle = append(res.Cycle, g.id)
						break
					}
					if !seen[x] {
						seen[x] = true
						stack = append(stack, edges[x]...)
					}
				}
			}
			break
		}
		pick := choose(step, en, last)
		ok := false
		for _, id := range en {
			if id == pick {
				ok = true
			}
		}
		if !ok {
			pick = en[0]
		}
		res.Choices = append(res.Choices, Choice{Enabled: en, Cur: last, Chosen: pick})
		g := gs[pick]
		switch g.want {
		case wantLock:
			g.m.w = true
			g.m.wwait--
			g.m.wh = g.id
		case wantRLock:
			g.m.r++
			g.m.rh = append(g.m.rh, g.id)
		}
		g.want = wantNothing
		cur = g
		last = pick
		g.resume <- struct{}{}
		<-parked // only g runs, so it is g that parks (or finishes)
	}
	active = false
	cur = nil
	for _, g := range gs {
		if g.Panic != "" {
			res.Panics = append(res.Panics, fmt.Sprintf("g%d: %s", g.id, g.Panic))
		}
	}
	return res
}
