module verifharness

go 1.23

require (
	github.com/anishathalye/porcupine v1.3.0
	github.com/mattn/anko v0.0.0
)

replace github.com/mattn/anko => /repo
