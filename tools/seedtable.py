#!/usr/bin/env python3
"""seedtable.py <roundtag e.g. r7>: markdown table 'seed | change | reported by (quick tier)' from seeded/*-<tag>-*/meta.json"""
import json, glob, os, sys
tag = sys.argv[1]
print("| seed | change | reported by (quick tier) |\n|---|---|---|")
for d in sorted(glob.glob("/verif/seeded/*-%s-*" % tag)):
    m = json.load(open(d + "/meta.json"))
    caught = ", ".join(m.get("caught_by") or []) or ("— (see text)" if m.get("note") else "— (MISSED)")
    s = (m.get("summary") or "").replace("\n", " ").replace("|", "/")[:150]
    print("| %s | %s | %s |" % (os.path.basename(d), s, caught))
