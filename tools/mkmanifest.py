#!/usr/bin/env python3
"""Regenerates /verif/MANIFEST.json from the table below (kept next to the code so
that the manifest is valid at every commit)."""
import json, os, sys
ROOT = os.path.dirname(os.path.dirname(os.path.abspath(__file__)))
BASE_CMD = "cd /repo && go test -vet=off -count=1 -timeout 25m ./..."

CLAIMED = {
 "C05": dict(
   cat="exploration", ref="DESIGN.md section 3, C05",
   technique="runtime differential monitor: every vm.Execute result (value and dynamic type) compared with native Go int64/float64/string arithmetic over a completely enumerated boundary-pool product plus PRNG expression trees",
   text="Differential runtime monitor against native Go arithmetic. The operator x operand-pair table over the int64/float64 boundary pools (cache edges, 2^31, 2^53, 2^63 edges, +-0, inf, NaN) is enumerated completely on every run, in literal and variable provenance; expression trees crossing the small-int cache are PRNG-generated. Held means: no observed evaluation differed in value, dynamic type or error status.",
   note="Trusted: Go's arithmetic/strconv/fmt as reference; the reading of the statement for operand kinds it names. Not judged: operands the statement is silent on (bool/nil operands, float operands of % & | << >>, n*string)."),
}
NOT_YET = {}
ALL = ["C%02d" % i for i in range(1, 21)]

def main():
    checks = []
    for pid in ALL:
        if pid not in CLAIMED:
            continue
        c = CLAIMED[pid]
        checks.append({
            "property_id": pid,
            "quick_cmd": "./vcheck run %s --tier quick" % pid,
            "thorough_cmd": "./vcheck run %s --tier thorough" % pid,
            "evidence_file": "/verif/evidence/%s.json" % pid,
            "replay_cmd_template": "./vcheck replay {path}",
            "engine": "vworker",
            "level_claimed": {"category": c["cat"], "text": c["text"], "design_ref": c["ref"]},
            "level_note": c["note"],
            "technique": c["technique"],
        })
    na = [{"property_id": p, "reason": NOT_YET.get(p, "check not built yet in this round; the design (DESIGN.md section 3) applies runtime monitoring to it and it will be claimed once its engine is committed")}
          for p in ALL if p not in CLAIMED]
    m = {
        "version": 1,
        "setup_cmd": "./vcheck setup",
        "hooks": {
            "guard": "verif",
            "enable": "workers are built with `go build -tags verif` from /verif/harness, whose go.mod replaces github.com/mattn/anko by /repo; no guarded source exists in /repo (all observation points are at the public boundary)",
            "baseline_off_cmd": BASE_CMD,
            "source_commits": [],
            "add_only": True,
        },
        "engines": [
            {"name": "vcheck", "path": "harness/cmd/vcheck", "serves_properties": [c["property_id"] for c in checks], "kind_free_text": "orchestrator: rebuilds workers from /repo, spawns/supervises worker processes, crash attribution, race-log collection, evidence, known-findings matching"},
            {"name": "vworker", "path": "harness/cmd/vworker", "serves_properties": [c["property_id"] for c in checks], "kind_free_text": "worker linking /repo: workload generators + runtime monitors/oracles, one engine file per property"},
        ],
        "checks": checks,
        "not_applicable": na,
        "notes": "All checks honour VERIF_SEED and VERIF_TIER. Exit 0 = held on everything explored, 1 = VIOLATION line(s), 2 = the check itself could not run (build failure of /repo, no evidence, harness bug).",
    }
    with open(os.path.join(ROOT, "MANIFEST.json"), "w") as f:
        json.dump(m, f, indent=1)
        f.write("\n")

if __name__ == "__main__":
    main()
