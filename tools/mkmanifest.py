#!/usr/bin/env python3
"""Regenerates /verif/MANIFEST.json from the table below (kept next to the code so
that the manifest is valid at every commit)."""
import json, os, sys
ROOT = os.path.dirname(os.path.dirname(os.path.abspath(__file__)))
BASE_CMD = "cd /repo && go test -vet=off -count=1 -timeout 25m ./..."

CLAIMED = {
 "C05": dict(
   cat="exploration", ref="DESIGN.md section 3, C05",
   technique="runtime differential monitor: every vm.Execute result (value and dynamic type) compared with native Go int64/float64/string arithmetic over a completely enumerated boundary-pool product plus PRNG expression trees",
   text="Differential runtime monitor against native Go arithmetic. The operator x operand-pair table over the int64/float64 boundary pools (cache edges, 2^31, 2^53, 2^63 edges, +-0, inf, NaN) is enumerated completely on every run, in literal and variable provenance; expression trees crossing the small-int cache are PRNG-generated, as are unparenthesised chains of one precedence level (judged against the step-by-step left fold); a race-build phase runs 8 independent interpreters at once on integer chains whose every result a host probe recomputes natively. Held means: no observed evaluation differed in value, dynamic type or error status.",
   note="Trusted: Go's arithmetic/strconv/fmt as reference; the reading of the statement for operand kinds it names. Not judged: operands the statement is silent on (bool/nil operands, float operands of % & | << >>, n*string)."),
}
NOT_YET = {}
CLAIMED.update({
 "C01": dict(
   cat="exploration", ref="DESIGN.md section 3, C01",
   technique="runtime crash monitor: recover() around every boundary call plus a parent-process classifier of worker deaths (panic on a script goroutine, fatal error), over token soup, grammar-wild templates crossed with every value kind, corpus mutation and mutated generated programs",
   text="Each run executes tens of thousands (thorough: 1.5M) of PRNG-determined scripts through vm.ExecuteContext with Debug=false in an environment holding one value of every constructible kind plus Go functions over such values (typed, variadic, multi-result, error-returning, panicking with error/string/arbitrary values, callbacks); every input is written to the in-flight file before it runs so a process death is attributed to it; every input that ever crashed the pinned tree is replayed first. Generated operands add function literals of every parameter-list shape, numerals with extreme exponents and hundreds of digits, type expressions nested three deep (incl. types reflect refuses) and Go functions returning nil errors / typed nils; every returned value is held in a goroutine's locals while its stack is moved, so a corrupt interface value kills the worker with its input in flight. Held = no Go panic reached the caller and no worker died outside the excluded classes.",
   note="Trusted: the crash classifier's reading of the runtime's fatal-error text for the excluded classes (stack/memory exhaustion, concurrent map access between script goroutines). Not generated: allocation sizes between 10^4 and 2^48, range() over huge spans, self-referential containers passed to formatting, packages tables (import cannot reach os.Exit/exec)."),
 "C18": dict(
   cat="exploration", ref="DESIGN.md section 3, C18",
   technique="runtime differential monitor at process level: the anko binary built from /repo is run on every script (file mode with trailing arguments and -e mode) next to a library driver executing vm.Execute on the same source in an equally prepared environment; stdout, diagnostic line and exit status are compared",
   text="53 fixed scripts and PRNG template programs (unchanged, with a parse error injected at a random token, with a run error injected after k prints, reading args, importing bundled packages, unreadable paths, load() of missing/unparsable files at top level, in functions and in try, defined() on the script's own names); required: CLI stdout = library stdout plus exactly one diagnostic line iff the library returned an error; exit 0 iff no error, 4 on parse/run error, 2 for an unreadable file; args as seen by the script.",
   note="Trusted: the library driver in a child process of the worker as reference. Not judged: stderr, the diagnostic's wording, interactive mode; a mismatch must reproduce on a second run of both sides, else it is inconclusive."),
 "C19": dict(
   cat="exploration", ref="DESIGN.md section 3, C19",
   technique="runtime differential monitor of the core builtins against native Go (math/big progression for range, reflect/strconv/fmt for the others) plus an exhaustive structural invariant over the live package tables (runtime.FuncForPC name / reflect type identity per entry)",
   text="range: all triples of an int64 boundary pool with progressions of at most 10000 elements, each call in a CPU/heap-limited child process so a runaway is a violation with its triple; keys/len/typeOf/kindOf/toX over a broad value universe; misuse (wrong count, wrong kind) must be an error, never a panic; tables: every one of the 443 function and 26 type entries of env.Packages/env.PackageTypes must resolve to the Go symbol it is listed under (complete enumeration, exhaustive:true for that phase).",
   note="Trusted: runtime.FuncForPC naming, Go's reflect/strconv/fmt as reference. Not judged: toBool, bools as toInt/toFloat arguments, load, print*, ambiguous numeral spellings, spread calls with surplus elements."),
 "C02": dict(
   cat="exploration", ref="DESIGN.md section 3, C02",
   technique="runtime monitor over non-terminating programs: after cancel() returned, the call must return with 'execution interrupted' within a logical budget of probe events; a call that does not return is classified from two goroutine-state samples and process CPU time",
   text="Every core (all loop forms, nested for-in, unbounded recursion through functions of 0/1/3/6/variadic parameters, tick-less loops, every blocking channel operation) under every single wrapper (29 wrapping constructs: call paths, go, try/catch/finally bodies, both sides of ??, ternary, call argument, deferred callees, switch, branches, callbacks handed to Go func types) in both positions is enumerated completely each run, plus PRNG wrapper chains up to depth 3; cancellation lands synchronously at the k-th probe (k swept) or asynchronously after 0-3 ms at GOMAXPROCS 1/2/16. A contended phase lets the script consume a buffered channel (range / receive forms) while host goroutines take values from the same channel; once the feed has stopped and the buffer is empty the context is cancelled (150 trials per case). Callback wrappers include Go func types with an error result and script functions reaching a Go func type through struct fields, typed channels, maps/slices of funcs, variadic spread and callback results; further cores cancel the context from inside a host call and continue with plain calls; a failing deferred call is followed by a spinning one; ?? sits over index/member/slice forms of a spinning callee.",
   note="Trusted: the budget of 2*(ticks per cycle)+wrappers+2 post-cancel probe events as 'may finish the expression in progress'; the goroutine-state classifier (parked in vm frames = missed interrupt, parked under a host frame = documented exemption). Wall-clock expiry alone is inconclusive."),
 "C03": dict(
   cat="exploration", ref="DESIGN.md section 3, C03",
   technique="runtime metamorphic monitor over parser output: minimal vs fully parenthesised spellings of generated expression trees must parse to the same tree (reflection dump) and evaluate to the same value; literal spellings compared bit-for-bit with the Go value",
   text="Every ordered pair and triple of the table's binary/ternary operators plus all unary/postfix neighbourhoods are enumerated completely on every run; random trees to depth 6/8 are embedded in 14 statement positions; each tree is spelled four ways, each parse is converted back to the IR and compared with the tree, and min/full spellings are executed in equal environments. Literals: every documented spelling against the Go value, out-of-range spellings (also below MinInt64) must be *parser.Error; a backslash before a character that is no defined escape is swept over 67 blocks of code points (only what is written may come out, every non-ASCII character is treated alike); every tree of the bare position is also parsed through a re-initialised Scanner.",
   note="Trusted: the printers' reading of the operator table in the statement; astx reflection dump. Not judged: `<-`, chained `in`, ++/--/op=, binary ^, escapes the lexer does not define."),
 "C04": dict(
   cat="exploration", ref="DESIGN.md sections 2.1 and 3, C04",
   technique="offline checker of recorded probe traces against an executable reference model (lexical scope interpreter written from the statement), over PRNG-generated programs with read-back probes after every statement",
   text="Generated terminating programs (scope profile) run on the real interpreter with host probes that read back a 4-name pool after statements at every nesting level and on every exit path; the recorded trace, result and error status must be admitted by one of the reference model's variants (readings the statement leaves open). A scope not restored on one exit path shows as a wrong read-back.",
   note="Trusted: internal/refmodel as the reading of the statement (parent-linked scopes, nearest-binding assignment, fresh scope per invocation, capture by reference). Programs outside the determined domain are excluded and counted."),
 "C06": dict(
   cat="exploration", ref="DESIGN.md section 3, C06",
   technique="runtime law monitor: for every ordered pair of a 163-value pool the observed results of ==, !=, in, switch (both operand orders, several provenances) are checked against the algebraic laws and reference rules of the statement",
   text="All 26569 ordered pairs of the pool (nil, bools, boundary ints and floats incl. 1e5/1e6/2^53 edges, +-0, inf, NaN, numeral strings in integer/fraction/exponent spelling, non-numerals, nested slices and maps) are enumerated completely each run, each observed through ==, !=, in, switch in both orders and with operands supplied as literals, variables and container elements; thorough adds 1M random pairs.",
   note="Trusted: Go's == on same-type primitives, anko's own observed <=/>= as the int/float reference (as the statement says), strconv for decimal numerals. Bool-vs-other coercions, non-decimal numerals and rounding-only equalities are unspecified: only symmetry/negation/in/switch consistency is checked for them."),
 "C07": dict(
   cat="exploration", ref="DESIGN.md sections 2.1 and 3, C07",
   technique="offline checker of recorded probe traces against an executable reference model: exact equality with the unique left-to-right, exactly-once, short-circuit-respecting evaluation trace, over a PRNG-sampled product of call shapes and operator/literal forms",
   text="Generated expression forms whose leaves are side-effecting probes, over every call path (script functions of 0-7 parameters = direct and reflect paths, variadic script functions, Go functions fixed/variadic with interface and typed parameters) x plain/spread-literal/spread-variable x direct/go/defer/anonymous/member callee x right/too-few/too-many arguments x failing or unconvertible operand i; list/map literals, all binary operators, index, 2/3-index slices, return lists, multi-assignment, in, switch subject, len, op-assign on indexed targets, && || ?: ?? with every deciding operand class. Goroutine bodies report on a separate trace compared as a multiset after a completion barrier.",
   note="Trusted: internal/refmodel. A call refused for its argument count may have evaluated any prefix of its operands (each at most once) — accepted. The order of an assignment's left-hand index expressions relative to its right-hand side is not constrained."),
 "C08": dict(
   cat="exploration", ref="DESIGN.md sections 2.1 and 3, C08",
   technique="offline checker of recorded probe traces against an executable reference model (structured control flow), over PRNG-generated nestings of branch and loop forms with break/continue/return at every position",
   text="Generated terminating programs (control profile: if/else-if/else, switch with multi-expression cases and default anywhere, three loop forms with probing conditions and post expressions, for-in over lists and maps, break/continue/return placed everywhere, all truthiness classes as conditions) run on the real interpreter; trace, result and error status must be admitted by a model variant. Runaway executions are decided on an event budget / CPU time, never on the wall clock.",
   note="Trusted: internal/refmodel. The known finding (control statements inside a try body are caught) is matched by a model finding flag so other deviations in the same programs still fail. Strings such as \"false\"/\"0\" as conditions are excluded."),
 "C09": dict(
   cat="exploration", ref="DESIGN.md sections 2.1 and 3, C09",
   technique="offline checker of recorded probe traces against an executable reference model (error propagation to the nearest try, per-invocation LIFO defer list), over PRNG-generated try/catch/finally/defer programs",
   text="Generated programs (error profile: nested try/catch/finally in nested functions, 0-5 defers per invocation in branches and loops, deferred host functions/closures/variadic and spread callees, failing deferred callees, throw/runtime error/return at every point) run on the real interpreter; every deferred call is observed with the arguments it received; trace, result and error class must be admitted by a model variant.",
   note="Trusted: internal/refmodel. Open readings accepted both ways: try/catch/finally scope sharing, finally after abrupt exits, which of several failing defers surfaces. Runtime error texts are opaque (only occurrence and position)."),
 "C10": dict(
   cat="exploration", ref="DESIGN.md section 3, C10",
   technique="history + executable model: every operation of a generated history is executed as its own vm.Execute call and, in parallel, on native Go slices/maps/strings/struct values (reflect); after every operation contents, length, capacity relation and aliasing of every container variable are compared",
   text="An exhaustive phase crosses a 15-value index universe (negative, 0, in range, len, len+1, +-2^40, non-numeric string, nil, slice, map) with read/write/slice(2,3)/call variants on untyped and typed slices and strings, and 16 keys with read/write/delete/member on untyped and typed maps; random histories of 10-40 operations (6000 quick / 150000 thorough) add append forms, aliasing through assignment, slicing and calls, struct fields of every basic and container type. An error must leave every container unchanged (deep comparison with the snapshot taken before). Fixed histories cover names bound to elements of nested slices (for variable, spreading var, parameter, copy) and decimal-numeral string indices (accepted: an error, or exactly what the integer does).",
   note="Trusted: Go's own slices/maps/strings as the model; capacity after a growing append is adopted from the live object (unspecified by Go). Excluded: float/bool indices, numeric strings other than decimal numerals, reslice high bound in (len,cap], struct value copy-vs-alias, in on maps/strings, multi-byte string stores."),
 "C20": dict(
   cat="exploration", ref="DESIGN.md section 3, C20",
   technique="runtime metamorphic monitor: every operation template is instantiated with its operand supplied through each provenance (variable, element, map entry, member, struct field, script call, Go call returning interface{}, parentheses, ternary, ??, parameter, var, channel receive, module member, multi-result) and must agree with the plain-variable instantiation in outcome class, value, dynamic type, identity and side effects",
   text="203 operation templates x 27 operand kinds x 21 provenance atoms: every (template, value, atom) is enumerated completely each run; chains of length 2-3 are PRNG-sampled (thorough: all length-2 chains); each instantiation runs in a fresh environment with fresh operand objects; effects are observed from Go after the run. A typed phase (complete) takes operands of named types and non-empty-interface values through typed addressable locations and nine binding hops against type- and identity-revealing templates. A pairs phase (complete list) compares arguments bound by spreading a list (plain, with leading arguments, through a Go call, under defer and go) with the same arguments written out, for callees that overwrite the list, keep a closure, assign their parameter or apply kind-sensitive operators.",
   note="Trusted: the variable instantiation as reference (so a defect that affects all provenances alike is out of this check's reach — other properties cover those). Excluded: a,b = <index expr> (comma-ok statement by grammar), &X, the value of X++ / X op= e, stores needing an assignable target, struct value field stores through boxing provenances."),
 "C11": dict(
   cat="exploration", ref="DESIGN.md section 3, C11",
   technique="runtime recorder monitor: Go functions manufactured with reflect.MakeFunc record exactly what they receive and how often; conversions, round trips, member access, methods and callbacks are compared with Go's own reflect conversions and identities",
   text="An exhaustive conversion matrix (129 source values x 52 target types x 11 call forms covering fixed/variadic functions x plain/spread calls) requires: conversion exists for all arguments => the recorder is invoked exactly once with deeply equal, identically typed arguments and all results come back; otherwise an error and zero invocations. Round trips of 62 Go types through 13 routes keep dynamic type, value and pointer/channel identity; exported (also promoted) fields are read and written through pointers, value- and pointer-receiver methods are called with the supplied arguments; script callbacks of 14 func types receive what Go passes and their results are converted or refused. Named types of every basic kind with methods are held in addressable Go locations and taken through 32 binding hops (dynamic type, value- and pointer-receiver methods must survive); a script list of length 0 must arrive as an empty non-nil container on every route; one adapted callback is invoked from 4-12 goroutines with distinct arguments (echo check; race build in the thorough tier).",
   note="Trusted: reflect's ConvertibleTo/Convert as 'Go's own conversion'. Excluded: string to uint8/int32 (documented rune path), pointer-to-pointer of other types, arrays, surplus spread elements, functions typed like the VM-function protocol."),
 "C12": dict(
   cat="exploration", ref="DESIGN.md section 3, C12",
   technique="history + executable model: every env API call of generated and exhaustively enumerated histories is applied to the real package and to a chain-of-dictionaries model; results and the complete observable state of every live scope are compared after every call",
   text="All operation sequences of length 4 (5 in thorough) over a 22-op value alphabet and a 15-op type alphabet are enumerated completely; random histories of 40-200 calls over all 26 API entry points on a forest of up to 12 scopes with dotted names, module names and external lookups; after every call results and full state (symbols, Get/Type of every pool name from every scope, copy independence) are compared; every call runs under recover; failing histories are shrunk.",
   note="Trusted: the 120-line dictionary model. Accepted both ways: path lookup when the nearest binding is a non-module but an outer module exists; Set/DeleteGlobal under an external lookup that supplies the name; Addr's unaddressable errors."),
 "C13": dict(
   cat="exploration", ref="DESIGN.md section 3, C13",
   technique="controlled scheduling + linearizability checking (porcupine) of recorded call/return histories, on a scratch copy of the repository whose env mutex operations are rewritten into scheduling points; plus the Go race detector under stress on the real package",
   text="(a) Configurations of 2-3 goroutines x 2-4 environment operations on a shared scope with a read-only parent: every schedule with at most 2 preemptions at lock-acquisition granularity is enumerated depth-first (configurations finished under the cap are counted as exhaustive within the bound), plus random schedules; each execution yields a history on the scheduler's logical clock, closed by a read of the final state, checked by porcupine against a sequential dictionary model; nothing enabled with goroutines unfinished = deadlock. (b) 8-32 goroutines x hundreds of mixed operations (all sixteen, incl. DeepCopy, NewModule, GetEnvFromPath, Addr) under -race at GOMAXPROCS 2 and 16; reports are collected from the race log and de-duplicated by the pair of innermost anko functions.",
   note="Trusted: the go/ast rewrite of sync.RWMutex/sync.Mutex in env/*.go (regenerated from the current tree on every run; no mutex found = the check fails to build, never passes), the simulated writer-preferring RW lock, porcupine. A missing lock leaves no scheduling point and is therefore the race phase's business, not the scheduler's."),
 "C14": dict(
   cat="exploration", ref="DESIGN.md section 3, C14",
   technique="runtime structural + differential monitor: reflection dump of the shared parsed tree before/after every run, observation equality between a solo run and repeated/concurrent runs of one tree on fresh environments, canaries on process-global interpreter state, Go race detector on the concurrent phase",
   text="Each program (35 feature programs incl. large-integer arithmetic and maps that grow while ranged over (8 reruns each); further programs aimed at per-node runtime data and import tables, generated programs of every profile, the repository's goroutine-free scripts) is parsed once; sequential phase: 3 runs in fresh equal environments with a dump comparison after each; hist phase: every program's observation in a process with a history (2-6 programs of complementary groups run first) equals its observation as the only program of a fresh child process; iso phase: after module copy, import, Copy/DeepCopy of a template every mutation on one side is invisible on the other (scripts and env API); concurrent phase in the race build: 8 goroutines run the one shared tree behind a barrier on 8 fresh environments and must each reproduce the solo run's value, error text and probe trace; after every case canaries check the shared ++ literal, the small-int cache, the package-table sizes and that a fresh environment's imports are pristine.",
   note="Trusted: astx dump completeness (generic over struct fields, so added fields are seen). Skipped as outside repeatability: corpus scripts using import, goroutines, channels, map iteration, keys(), printing, time."),
 "C15": dict(
   cat="exploration", ref="DESIGN.md section 3, C15",
   technique="runtime monitor of parser.ParseSrc over generated, mutated and hand-built hostile inputs: panic capture, CPU/allocation budget per input (termination), error type and position range, determinism (sequential and concurrent under -race), and the compositional law on pairs of valid programs checked node by node with shifted positions",
   text="22 scanner-bookkeeping families (unterminated strings/comments at every offset, CR/LF mixes, invalid UTF-8, NUL, 20000-deep nesting, 64 KB tokens, operators split by EOF), every corpus script with all prefixes/suffixes, the complete square of ~120 valid edge texts plus edge x corpus pairs, token/byte soup, a grammar-directed generator and 11 mutators, random valid pairs, and 8-goroutine concurrent parses in the race build.",
   note="Trusted: astx reflection dump for tree identity; 'terminates' is restated as 20 CPU-seconds / 1 GiB allocated per input (normal: < 5 ms), decided on CPU time. Lines are counted as count(newline)+1; columns in bytes (the more permissive unit)."),
 "C16": dict(
   cat="exploration", ref="DESIGN.md section 3, C16",
   technique="runtime delivery monitor over generated pipeline programs: every message carries a unique (producer, sequence) id; the consumer's collected sequence is checked for exactly-once FIFO delivery and element conversion; termination is decided by a goroutine-state sampler; half of the runs execute under the Go race detector",
   text="An exhaustive semantics table (9 scenarios x 7 element types x 3 capacities: receive on closed-and-drained, two-value form, range until close, send on closed, double close, capacity) plus PRNG pipelines of 1-4 stages over buffered/unbuffered typed and interface channels with every receive form, one function value entered by 20 goroutines at a time, generator-style functions that return before their goroutine runs, named/anonymous/variadic go launches with arguments reassigned right after the go statement, fan-in and fan-out, n in {0,1,2,50,1000}, host jitter at PRNG points, GOMAXPROCS 1/2/4/16 and repetitions; arrival interleavings at the fan-in consumer are counted as the measure of schedule diversity.",
   note="Trusted: the sampler's classification (every anko goroutine parked in a channel operation in two samples = deadlock/lost message; anything else inconclusive). Not judged: nil messages, channels as messages, inexact conversions, errors inside go bodies (C01), unsynchronised shared containers."),
 "C17": dict(
   cat="exploration", ref="DESIGN.md section 3, C17",
   technique="runtime structural monitor: the node set and parent relation computed by reflection (independent of astutil) is compared with what astutil.Walk presents; callback failure injected at every position",
   text="A deterministic matrix of 33049 programs (every expression template in every expression hole, every statement template in every block hole; a node type or child field that never occurred fails as no-coverage), the repository's own scripts, and PRNG nestings; long unparenthesised operator chains (31-300 terms) are part of the matrix; a walk re-entered from its own callback and four concurrent walks must present exactly what the undisturbed walk presented; for each, Walk must return nil, present every reflected node after its parent, and with the callback failing at call k (all k for small programs) return that error without further calls.",
   note="Trusted: astx reflection traversal. Synthetic nodes Walk fabricates are allowed; sibling order and multiplicity are not judged."),
})
ALL = ["C%02d" % i for i in range(1, 21)]

# what the fourth seeding round added to each workload (appended to the level text)
ROUND4 = {
 "C01": "Round 4: unsigned and small-width operands in every operator and position, an exhaustive phase cross (every unsigned operand x 19 operators x every partner x 10 evaluation positions; every index from -1 to len+1 of twelve non-ASCII strings in every read/slice/store/loop form), parameter lists of up to 300 names, Go arrays handed in by the host, and storms: 4-16 go-started workers released together in a fresh child process, each evaluating 40-100 constructs of distinct shapes and sharing no script container.",
 "C02": "Round 4: forwarding cores (dst <- src), recursion cores whose every function body is a single return, callback wrappers in which the host cancels between two invocations or waits for the cancel before invoking, cores inside the targets of a receive statement.",
 "C03": "Round 4: decimal spellings with leading zeros; chained `in` generated bare (its right-grouped tree is a listed finding pinned by the baseline suite).",
 "C04": "Round 4: assignment of a function to its own name, recursion through a rebound name, recursive defers.",
 "C06": "Round 4: the switch observation over four and more case values in three clause shapes, all ordered pairs of views [i:j] of twelve backing arrays through seven provenances, and a phase conc in which 4-8 interpreters compare integers with exact non-integer-format numerals (each count must equal iterations x the sequential answer).",
 "C07": "Round 4: nested assignment targets with probed operands (append at len, map entry, member, three levels), deferred spread calls with anonymous/member callees, single-return functions that fail, typed map literals, a Go function that panics on its goroutine while the spawner goes on evaluating operands.",
 "C08": "Round 4: failing else-if conditions, post-less C-for, and direct programs for the truthiness of every Go number kind (incl. uintptr, float32, named numbers) and of typed containers / named strings handed in by the host, in if, else-if, for-cond and C-for conditions.",
 "C09": "Round 4: recursive defers, single-return functions that fail, deferred spread calls with anonymous and member callees.",
 "C10": "Round 4: struct shapes side by side (incl. host structs), literal nodes evaluated repeatedly through literal functions and loops, fields of a struct read out of an untyped element.",
 "C11": "Round 4: phase selector (methods that take the name of a promoted field, embedded by value / pointer / two levels deep, through 14-21 holders, judged by Go's shallowest-depth selector rule) and phase slotarg (a slot operand passed in a call in which a later argument stores into that slot).",
 "C12": "Round 4: external lookup objects that answer the zero reflect.Value without an error.",
 "C13": "Round 4: long-history configurations under the controlled scheduler (32-170 operations per goroutine after up to 300 define/delete cycles) and a race-build phase owners (each goroutine's own symbols must read back exactly as it left them through Get, listings, Copy and DeepCopy; a foreign counter never goes back).",
 "C14": "Round 4: prepared environments (DefineType of T/U/hm.T to one of 11 Go types, host float32 values, a barrier), one parsed tree run in 2-4 differently bound environments sequentially and concurrently, hundreds of error exits from script functions followed by deep recursions, deep recursions overlapping in 8 interpreters, float32 comparison loops under the race detector, Addr-store as an environment mutation, the literal nil and the value next to 'undefined symbol' as observation points.",
 "C15": "Round 4: the type sub-language as parser input (every type form applied to every type form, dotted paths after every form, in every place of the grammar that takes a type, well- and ill-formed).",
 "C16": "Round 4: named element types of the same kind (a send must convert), channel identity, launch forms whose channel arguments are read from typed slots that are overwritten right after, zip pipelines (a receive inside the body of a for-in over another channel), scenarios forin-body-recv, chan-from-slot, send-converts, forin-slot-operand, pointer-messages (the for-in pointee is a listed finding).",
 "C17": "Round 4: 'returns that error' is checked as identity; phases deep and deepgen: every expression template nested in itself through each hole to depth 500-3000 under 23 statement contexts, block spines to depth 300-2000, operator chains and wide lists of 1000-3000 members.",
 "C18": "Round 4: an empty -e source is judged like any other source.",
 "C20": "Round 4: phases concur / concur-race (13 call sites whose callee is given by an expression, evaluated by 3-5 overlapping goroutines or interpreters each with its own closure), 26 param-* templates (the callee stores into its parameter, the caller reads the argument again), live for-in subjects, late-bound callees, boxed callback result lists, values of store expressions, parenthesised places.",
}
for _k, _v in ROUND4.items():
    CLAIMED[_k]["text"] += " " + _v

# what the fifth seeding round added (appended after the round-4 texts)
ROUND5 = {
 "C01": "Round 5: equality operands of one comparable static type whose interface parts hold lists, maps, functions or nested structs, type paths of length 2-4 through nil modules in 28 type positions, one member-expression node evaluated repeatedly over records of different shapes (also by re-running one parsed program while a name is rebound), receive operations on directional host channels.",
 "C02": "Round 5: 45 callback wrappers - Go callback types with a context.Context parameter (the host passes its own, the background or a nil context), script functions stored or appended into func-typed slices, maps, fields, pointers and channels, functions returned in result positions of multi-result callbacks, a callback run on a host goroutine.",
 "C04": "Round 5: closures made by calling one factory twice (the captured name declared in a place of the literal that does not cover the read), a function value used again after a nearer binding of its free name was made, a name only the host's lookup object answers read and assigned at every nesting level.",
 "C05": "Round 5: the kind of float - string results; phase history: hostile prefixes obtain an integer result in 12 ways and store to it in 16 ways (through pointers to operator results among them), then every operator of the statement recomputes the target values in the same and in a fresh environment, plus a sweep of -3..4098.",
 "C06": "Round 5: phase long (twelve boundary integers against numerals of 40-3000 extra characters in fourteen spellings, exact big.Rat reference) and phase again (one in / == / switch evaluated 3-7 times from the same syntax nodes while operand values change, four ways of repeating).",
 "C07": "Round 5: nested-target assignments executed repeatedly with operands that differ per execution (member, index, parenthesised and three-level containers; loop body and function called again), nil function values as callees (operands at most once each).",
 "C08": "Round 5: C-style loops whose body, inner loop or callee writes the counter, map values rewritten by the first round of a two-variable for-in, failing case expressions, a stray break/continue of a nested run reported by a panicking Go function.",
 "C09": "Round 5: failing case expressions inside try/finally and functions with defers, errors crossing repeated nested-target stores.",
 "C10": "Round 5: ten script functions whose body is one nested-target assignment (plain, parenthesised, op=, ++) called again and again on inner slices, maps and strings; one assignment statement as the body of 2-4 loop passes; struct values inside untyped containers whose slice field shares spare capacity with a variable.",
 "C11": "Round 5: phase ptrarg (pointer arguments in plain and spread calls: nine callee kinds, 16 pointee types, absolute oracle on invocation count, pointee on entry, read-back and results), phase deepstore (stores at random paths through a Go struct bound by pointer against the same store made by reflect on a twin), phase cbvar (variadic callbacks).",
 "C12": "Round 5: phase paths (modules with sub-modules, module names rebound to plain values in nearer scopes, lookup objects answering values and modules, paths of 1-3 elements): paths of every length must resolve their first element by ONE of the three readings the statement admits.",
 "C13": "Round 5: race phase scopes (reader-only rounds with Addr of nil bindings; operations started in descendants and in scripts running in child scopes against writers on the ancestors; module members written while the parent is printed and copied; single-writer read-back oracle) and lookup configurations under the controlled scheduler (a lookup object that reads its own scope).",
 "C14": "Round 5: phase shared (helper functions of 0-8 fixed or variadic parameters defined once and called by 8 environments made by Copy, DeepCopy or as child scopes, alone and all at once; one tree run over differing host data sequentially and concurrently against a freshly parsed tree), types declared in nested scopes followed by resolution in later blocks, runs and environments, canaries for both.",
 "C15": "Round 5: phase recvassign (28 kinds of white space incl. line breaks, CRLF, NEL, U+2028 and comments between = and <-, 6 target forms, 20 error contexts and every truncation, composition with 24 partner texts).",
 "C16": "Round 5: phase stepped (pipelines started by one call and consumed by later calls on the same environment or by the host reading the script-made channel; verdict from goroutine states), send-on-closed and double-close provoked inside loop bodies incl. for-in over a channel, the implicit relay dst <- src as a forwarding stage.",
 "C17": "Round 5: phase history (up to 24 million callback calls of stopped walks in six modes - deep spines, many small programs stopped at every position, concurrent and nested stops - with complete walks judged by the unchanged oracle in between and afterwards).",
 "C18": "Round 5: phase diag-env (failing scripts whose error text contains % in every position and line breaks; 50 names no scope defines incl. every bundled package name, in 34 positions, in both modes).",
 "C19": "Round 5: every function entry of every table read through the script in six positions (must be the table's Go function by code pointer and type), type entries through make; phase histories (range, keys, toXSlice results changed by script and host stores between calls, same and fresh environments); values of named string types judged by their content.",
 "C20": "Round 5: phase live (about 70 sites x 19 operand kinds x 12 places holding the operand x replace / mutate stores made by a later operand; reference taken in position through id(place) and a function result; for-in variables against let-bound copies; the pointer write-back family is a listed finding).",
}
for _k, _v in ROUND5.items():
    CLAIMED[_k]["text"] += " " + _v

# what the sixth seeding round added
ROUND6 = {
 "C01": "Round 6: every crash-provoking construct also started with `go` from inside function bodies, closures, deferred functions, callbacks and nested goroutines (38 nesting contexts x 38 hazards); container storms (struct types with maps and slices 0-2 struct levels down made per goroutine), import storms (member stores through import expressions of a host-registered package against importers and readers) and module storms (two shared modules compared, formatted, dereferenced while written), each in a fresh child process with a canary afterwards.",
 "C02": "Round 6: try shapes whose catch block leaves by return, throw or a runtime error and whose finally block holds the core (judged only once the finally block was entered); phase deep: cancellation landing beneath 20000-100000 pending script calls on 15 call paths, verdict from goroutine state and CPU burnt since the cancel.",
 "C03": "Round 6: every source ParseSrc rejects (out-of-range and malformed literals, unterminated strings, syntax errors) must be rejected by vm.Execute and vm.ExecuteContext too, without running anything, also when the literal sits in one of 24 contexts that would never execute it.",
 "C04": "Round 6: different closures of one shape handed to Go callbacks from one call site (loop body, function called again).",
 "C05": "Round 6: both operands of every binary operator reaching it from ONE place (same name, copies, parameters, one element read twice, values the script computed: NaN, infinities, signed zeros), shared-leaf expression trees.",
 "C06": "Round 6: phase inf (49 overflowing numerals of both signs against the infinities in every provenance: no numeral denotes an infinity) and phase typed (30 typed lists x 47 subjects: `in` and switch equal the OR of the observed == over the elements).",
 "C07": "Round 6 seeds (operand order of > / >=, deferred direct-path calls with a failing operand, an int64 fast path evaluating its right operand twice) were reported by the existing generators.",
 "C08": "Round 6: for-in over lists of 257-756 elements left by break, continue and return at any position; map loops nested in map loops after an earlier map loop of the same invocation.",
 "C09": "Round 6: failing callbacks under callback types that declare an error result or a value and an error.",
 "C10": "Round 6: phase conv (14 slot kinds x 5 value groups x 13 ways of storing with read-back: floats up to 2^64 into unsigned slots, one-byte strings >= 0x80 and characters above U+00FF into byte slots), needles that wrap, s[i] = s[i], map + map, stores at index len through the element the target is reached through.",
 "C11": "Round 6: phase gocall (go-started Go functions and methods followed at once by other calls of the same arity: every call receives exactly its own arguments), phase twins (distinct Go types that print alike: function-local types of different layouts, text/template vs html/template), phase numedge (boundary floats through every conversion route into 16 numeric target types).",
 "C12": "Round 6: values handed over as interface-kind reflect.Values (map elements, pointees) incl. modules, and reflect.Values read out of unexported struct fields (must be refused with every scope unchanged).",
 "C13": "Round 6: phase snapshots (single writers going generation after generation in item order through Set/Define/script assignments on values, types and presence lanes; every Copy, DeepCopy, String and listing taken meanwhile must show each lane as g..g,g-1..g-1), values whose GoString reads the scope, read-only values.",
 "C14": "Round 6: phase r6 - keymix/keyprogs (map keys whose hashability depends on the data behind an interface field: one tree and different programs run on hashable and unhashable data in both orders, each compared with the run alone in a fresh child process; a panic out of vm.Run is a violation) and loadmix (histories of same-length rewrites of a loaded file with pinned time stamps).",
 "C15": "Round 6: phase openends (every operator, keyword and atom followed by 59 open tails - unterminated strings, raw strings, comments, half-written numbers - as first and second parts of the concatenation monitor), corpus prefixes and open-end mutants composed with partner texts.",
 "C16": "Round 6: stage and consumer functions defined by an earlier call whose context is cancelled once it returned (ctx-released / run-released library programs in the stepped phase); blocked senders whose operand places are overwritten once the host has seen them parked (each message must be the value at the send statement).",
 "C17": "Round 6: 31 kinds of error the callback can return (plain, wrapped, joined, host types incl. uncomparable ones, *parser.Error with and without position, *vm.Error, typed nils, sentinels): Walk returns that very value, unchanged; phase errkinds fails the callback at every position of every template with every kind.",
 "C18": "Round 6: phase bytes-cwd-cr (script files with CR LF / lone CR line ends around multi-line raw strings; the command started from 9 combinations of working directory and script path with load() and file reads of relative paths; error texts with lone CR and CR LF - the diagnostic must be one line spelling the error text in the command's documented escaping).",
 "C19": "Round 6: conversion results (toString, toByteSlice, toRuneSlice, typed-slice forms, keys) kept in variables and as map keys across later stores into their arguments by the script, the host and Go APIs; every misuse also as the call of a defer statement in 8 positions.",
 "C20": "Round 6: phase bindpos (the operation runs inside the construct that binds the name: for-in over untyped lists, variadic tails, Go lists, typed slices, arrays, channels, map values; parameters of script- and Go-called callees; var), operand kinds whose pointer type is a Stringer / error and 512-byte arrays in the equality and concatenation templates, seven more live sites.",
}
for _k, _v in ROUND6.items():
    CLAIMED[_k]["text"] += " " + _v

# what the seventh seeding round added
ROUND7 = {
 "C01": "Round 7: type values (what make(type T, v) yields) in the operand pool, read-only reflect.Values answered by lookup objects, struct types with directional channel fields.",
 "C02": "Round 7: what the return of ExecuteContext may wait on after a cancel (go-started Go functions that panic).",
 "C03": "Round 7: phase reeval (a literal still denotes what is written when its node is evaluated again after the program took its address and stored through it: 13 carriers x 18 ways of taking hold x 13 re-evaluating vehicles, tree re-dumped after every run), float literals of 801-3000 characters against a big.Int reference incl. long negative zeros.",
 "C04": "Round 7: function literals started with go / defer inside blocks, function bodies and for-in bodies capture their scope by reference.",
 "C05": "Round 7: phase spelling (691 spellings of 44 values under every operator, position and compound form must agree with a variable of the same value).",
 "C06": "Round 7: phases ptr (pointers made 15 ways against 40 partners: the laws, and independence of where the pointer is read from) and uns (host integers of every width at their bounds incl. 2^63 and 2^64-1 against 132 partners).",
 "C07": "Round 7: parenthesised containers of nested assignment targets whose store has to put a new container back.",
 "C08": "Round 7: loops whose break/continue sit in switch cases, if blocks and inner loops after loops of the same invocation that failed inside try blocks; for-in over nil or a boolean as a model variant; switch subjects that are pointers to pointers; valued return through every loop form without a context.",
 "C09": "Round 7: errors whose text looks like an internal sentinel are ordinary errors.",
 "C10": "Round 7: empty maps converted to nil (aliases through a typed slot), lists passed to defer/go calls (reference values when passed).",
 "C11": "Round 7: phase history (72 conversions per process over families of neighbouring types - named types of one kind with different method sets, twins that print alike, nine interface targets - refusals before valid conversions and the reverse, each step judged by the absolute oracle).",
 "C12": "Round 7: phase long (histories of up to 2600 calls on one hot scope with segment sizes on and next to the powers of two).",
 "C13": "Round 7: phase cells (race build: single-writer lanes over addressable struct, array, interface and number cells written through Set/SetValue/Define/DefineValue while readers Get, Copy, DeepCopy, String: a value read is one the writer wrote, lanes never go back, a copy keeps what it showed), scopes in unusual lifecycle states when copied, deadlocks that need operations on two related scopes under the controlled scheduler.",
 "C14": "Round 7: cancellation from inside an operand of a ready channel operation repeated hundreds of times on one tree; stores through pointers taken from package members.",
 "C15": "Round 7: phase blanks (44 characters some layer treats as blank, alone and as one side of the compositional law).",
 "C16": "Round 7: go of a Go func value that wraps a script function, faults inside it judged in a child process; thousands of channels made, closed and dropped in one run.",
 "C18": "Round 7: errors with an empty or blank text; fixed scripts over os.Pipe and friends with a dozen prints after them.",
 "C19": "Round 7: phase swallowed (every builtin / package call with an argument spelled `failingInnerCall ?? arg` or through a catching script function must give what f(args) gives), phase sizes (len, keys, range, conversions exactly at and next to 255/256, 4095/4096/4097, 65535/65536).",
}
for _k, _v in ROUND7.items():
    CLAIMED[_k]["text"] += " " + _v

# what the eighth seeding round ("volume and history inside one process") added
ROUND8 = {
 "C04": "Round 8 (volume and history): phase rerun (a generated program is parsed once and its tree run 1100 times - thorough 4200 - in fresh environments; run 1 is judged by the model, every later run must equal it or be admitted by the model itself); phase volume: scopes holding 70-4200 names at three nesting levels with histories of var / plain assignment / delete of other names over three source texts executed in one environment, read back against a dictionary-chain model; 1100-4200 live closures of one factory; recursion 1100-9000 deep with locals checked after the inner calls return; one function invoked up to 9000 times (every invocation starts without the names earlier ones created); one read node and one assignment node whose nearest binding alternates between two scopes for thousands of rounds.",
 "C07": "Round 8 (volume and history): phase rerun as for C04 over the operand-order generator; phase volume: 42 operand-evaluating forms (method calls on Go values with changing receiver types, calls through fields / map entries / module members, script calls direct / reflect path / variadic / spread / go / defer / anonymous and alternating callees, Go calls fixed / variadic / typed, literals, binary operators, index and slice, return lists, multi-assignment, && || ?: ?? with alternating deciding operands, in, switch subject) each written once and evaluated 1300 times (thorough up to 5000) in a loop or through a function called that often: every single evaluation must log its probe leaves exactly once in source order.",
 "C08": "Round 8 (volume and history): phase rerun as for C04; phase volume: 6400 (thorough 16000) distinct condition values of every truthiness class streamed through if / else-if / loop / C-style-loop conditions of one process in 16 source texts, with a reference set of 24 values and values of earlier texts asked again every 40 values (strings spelling numbers or booleans are streamed unjudged); loops of 1023-65537 rounds (thorough 200000) in every loop form with break/continue/return at computed rounds, for-in over lists that long (rolling hash = index order) and maps of up to 20000 entries (every entry once); if/else-if chains and switch statements of 300-4200 branches asked thousands of times.",
 "C09": "Round 8 (volume and history): phase rerun as for C04; phase volume: invocations nested 1100-12000 deep, each with a deferred Go call and a deferred script literal, ended by return / throw / runtime error / caught throw (every entered invocation runs its deferred calls exactly once, innermost first; a refusal of the interpreter to nest deeper is not judged, what happened before it is); 1025-65537 deferred calls registered by one invocation; a function with three defers invoked up to 9000 times; 12000 (thorough 60000) try statements in one run with thousands of distinct error texts.",
}
for _k, _v in ROUND8.items():
    CLAIMED[_k]["text"] += " " + _v

ROUND8.update({
 "C01": "Round 8 (volume and history): phase history (one process executes 90 - thorough 300 - fuzz cases' worth of scripts, more than 7000 distinct sources, with forced garbage collections and a sample of the earliest scripts executed again at growing distances), phase hot (scripts that end by themselves are run again as the body of a loop of 1100 rounds inside try/catch), phase sizes (45 container operations on 11 kinds of script-built lists, typed slices, maps and strings of 255-257, 1023-1025, 4095-4097 and 65535-65537 elements, positions at and next to both ends).",
 "C05": "Round 8 (volume and history): phase volume (string * n, concatenation, string equality and strings grown by thousands of += for operands and results on and next to 256, 1024, 4096, 64 KiB, 128 KiB, 200000 and 256 KiB bytes, left operands of 1-70001 bytes with multi-byte characters at every alignment; chains of up to 12000 operands, trees nested 12000 deep, literals beyond 4 KiB / 64 KiB; every kept result compared again after a GC), phase hotnode (one operator node evaluated up to 70000 times through loops, script functions, a re-run tree, stored results and every compound form, the native reference applied at every evaluation; warmed beyond 4096 evaluations per kind pair - or 66000 identical ones - before the operand kinds change; GC between rounds), phase stream (histories of ~19000 pairwise distinct evaluations in one process whose values collide under weak keys - congruent modulo 256..2^32, equal bits as int and float, 3/3.0/\"3\", signed zeros - in long-lived, fresh and leaked environments under live and cancelled contexts, while 97 reference evaluations are asked again after exactly N-1, N, N+1 distinct others for N in 256, 1000, 1024, 4096).",
 "C11": "Round 8 (volume and history): phase hot (single call, member and callback expressions of one parsed tree evaluated 4200-66000 times by a loop, a repeatedly called script function or a re-run tree, judged at every evaluation on entry of the Go function, which then works in place on its slice and map parameters and re-checks the containers built for it; operands change type and convertibility by five schedules, callee names and method holders are re-bound), phase stream (8000 pairwise distinct calls, type pairs, field accesses on freshly manufactured struct types, round trips and callbacks through ~90 environments of one process with dropped trees, forced GC, cancelled or leaked contexts and parked goroutines, 12 kept reference sites re-asked at distances N-1, N, N+1 for N in 256, 1000, 1024, 4096 and a matrix of all sources x 26 target types re-asked every 1000 items), phase sizes (lists, maps, strings, argument counts, spread lists, parameter and result counts, struct fields, source offsets, call and callback nesting, defers, blocks and parked goroutines on and next to 256, 1024, 4096, 65536, 200000 and 12000).",
})
for _k in ("C01", "C05", "C11"):
    CLAIMED[_k]["text"] += " " + ROUND8[_k]

# round-8 texts of the engines strengthened by helpers (one JSON object: property -> text)
_r8 = os.path.join(ROOT, "tools", "round8_texts.json")
if os.path.exists(_r8):
    for _k, _v in json.load(open(_r8)).items():
        if _k not in ROUND8:
            CLAIMED[_k]["text"] += " " + _v


# round 9 (overlap): the company regime of the single-execution engines and the overlap programs of the model checks
ROUND9_COMPANY = ("Round 9 (overlap): every plain-build phase is run a second time as '<phase>+company': the first worker process's worth "
  "of its cases (thorough: four), same PRNG seeds, same oracle, while three other goroutines of that worker process execute without pause a battery of "
  "24 families of self-checking programs (arithmetic, strings, equality, switch, slices, maps, typed slices and conversions, closures, control flow, "
  "try/defer order, operand order, string truthiness calibrated on the tree itself, Go boundary, struct members, call kinds, parse shapes, literals, "
  "builtins and imports, provenance, the environment API, the AST walker), each execution in an environment and a tree of its own with a source text "
  "of its own, checked against a natively computed value; a case judged differently in company, or a battery program of this property's statement that "
  "computes something else than alone, is a violation (signature company:<item>); the evidence counts the company's executions per item.")
for _k in ("C03", "C04", "C05", "C06", "C07", "C08", "C09", "C10", "C11", "C12", "C17", "C19", "C20"):
    CLAIMED[_k]["text"] += " " + ROUND9_COMPANY
ROUND9_OVERLAP = {
 "C04": "Overlap program (phase programs, six fresh parses per run): eight goroutines of one run, released together, call the SAME function values at once - script functions of 1-7 parameters (both call paths), two variadic ones, closures over an invocation's locals, a recursive function - 120 times each with arguments that identify the caller; every invocation records its own parameters and locals; the records of the overlapping pass, of the same calls made one after another and of a second overlapping pass must be the multiset the statement fixes.",
 "C07": "Overlap program: eight goroutines of one run evaluate the same &&, ||, ?:, ?? nodes, list literals and argument lists at once, 90 rounds each over 23 deciding operands of every truthiness class (12 string shapes among them) that differ from goroutine to goroutine at every moment; probes record which operands each evaluation evaluated; the overlapping passes must record what the same work records one after another.",
 "C08": "Overlap program: eight goroutines of one run decide the same switch statements (8, 9, 31 and 200 cases; string-literal cases, number and mixed multi-expression cases, default first / last), if chains and loops with break/continue at once - in the first pass for the first time in the life of the freshly parsed tree; every decision is recorded with its subject and compared with the decision the statement fixes.",
 "C09": "Overlap program: eight goroutines of one run are inside invocations of the same functions at once, each invocation with three deferred calls (a host-visible record, a call with an argument evaluated at the defer statement, a closure), a try/catch/finally that throws every third time and a callee that fails; every invocation records the order in which its own deferred calls ran relative to its own body; the records must be those the statement fixes, in all three passes.",
}
for _k, _v in ROUND9_OVERLAP.items():
    CLAIMED[_k]["text"] += " " + _v


# round 10 (a fault at a particular point): the swallowed-fault grid
ROUND10_SWALLOWED = ("Round 10 (a fault at a particular point): phase swallowed, a fixed grid enumerated completely on every run: expression forms "
  "with a hole in one operand position (arithmetic, string and logic chains, comparisons, list / map literals, argument lists of every call path, return "
  "lists, multi-assignment, element / map / variable op-assignment, stores, index and slice operands, conditions, loop bounds, switch subjects, in, defer "
  "arguments, builtin and unary operands, nested functions; the forms that are instances of this property's statement) x 33 faults that fail after evaluating "
  "a pure part of themselves (unbound names at every position of a chain, throwing script functions, panicking host functions, modulo zero, index out of "
  "range, member of nil, failing calls of every call path incl. functions whose body throws, nested op-assignments whose right side fails, callbacks failing "
  "at their k-th call inside sort.Slice / strings.Map) x 4 swallowers ((F) ?? V, a catching script function, try/catch before the form, the form run three times in a loop with the fault in the first round only so that the same nodes are evaluated again after they failed once), followed by the same "
  "constructs, builtin and package calls without any fault; plus 22 failing statements (multi-assignment targets, op-assignments, delete, loop headers, "
  "switch cases, defer / go statements whose arguments fail, finally blocks) inside try in a function whose enclosing scopes bind the names, with the "
  "follow-up assignments and read-backs after the try, inside the catch block and inside the finally block. Oracle: the program and its fault-free sibling "
  "(V written in place of the swallowed fault / the failing statement left out) record the same probe trace, value, error status and read-backs.")
for _k in ("C03", "C04", "C05", "C06", "C07", "C08", "C09", "C10", "C11", "C19", "C20"):
    CLAIMED[_k]["text"] += " " + ROUND10_SWALLOWED
CLAIMED["C14"]["text"] += (" Round 9/10: phases company-only and company-only-race (the battery of cmd/vworker/company.go alone, batches of eight executions released together in "
  "environments and trees of their own, judged by the battery's own natively computed values and, in the race build, by the race detector: any report with an anko frame is hidden "
  "shared mutable state); phase seq also gives every program's source text, extended by one of 15 faults the parser reports only after the whole valid program, four times to the "
  "execute-a-source entry point in fresh environments: same error status, value and trace every time.")


for _k in ("C03", "C04", "C05", "C06", "C07", "C08", "C09", "C10", "C11", "C12", "C17", "C19", "C20"):
    CLAIMED[_k]["technique"] += "; the same cases judged again while other executions overlap in the worker process (company of self-checking programs)"
for _k in ("C03", "C04", "C05", "C06", "C07", "C08", "C09", "C10", "C11", "C19", "C20"):
    CLAIMED[_k]["technique"] += "; a grid of swallowed faults judged against fault-free sibling programs (metamorphic runtime monitor)"
CLAIMED["C14"]["technique"] += "; the race detector and self-checks over a battery of programs executed eight at a time in environments and trees of their own"

def main():
    checks = []
    for pid in ALL:
        if pid not in CLAIMED:
            continue
        c = CLAIMED[pid]
        checks.append({
            "property_id": pid,
            "quick_cmd": "./vcheck run %s --tier quick" % pid,
            "thorough_cmd": "./vcheck run %s --tier thorough" % pid,
            "evidence_file": "/verif/evidence/%s.json" % pid,
            "replay_cmd_template": "./vcheck replay {path}",
            "engine": "vworker",
            "level_claimed": {"category": c["cat"], "text": c["text"], "design_ref": c["ref"]},
            "level_note": c["note"],
            "technique": c["technique"],
        })
    na = [{"property_id": p, "reason": NOT_YET.get(p, "check not built yet in this round; the design (DESIGN.md section 3) applies runtime monitoring to it and it will be claimed once its engine is committed")}
          for p in ALL if p not in CLAIMED]
    m = {
        "version": 1,
        "setup_cmd": "./vcheck setup",
        "hooks": {
            "guard": "verif",
            "enable": "workers are built with `go build -tags verif` from /verif/harness, whose go.mod replaces github.com/mattn/anko by /repo; no guarded source exists in /repo (all observation points are at the public boundary)",
            "baseline_off_cmd": BASE_CMD,
            "source_commits": [],
            "add_only": True,
        },
        "engines": [
            {"name": "vcheck", "path": "harness/cmd/vcheck", "serves_properties": [c["property_id"] for c in checks], "kind_free_text": "orchestrator: rebuilds workers from /repo, spawns/supervises worker processes, crash attribution, race-log collection, evidence, known-findings matching"},
            {"name": "vworker", "path": "harness/cmd/vworker", "serves_properties": [c["property_id"] for c in checks], "kind_free_text": "worker linking /repo: workload generators + runtime monitors/oracles, one engine file per property"},
        ],
        "checks": checks,
        "not_applicable": na,
        "notes": "All checks honour VERIF_SEED and VERIF_TIER. Exit 0 = held on everything explored, 1 = VIOLATION line(s), 2 = the check itself could not run (build failure of /repo, no evidence, harness bug).",
    }
    with open(os.path.join(ROOT, "MANIFEST.json"), "w") as f:
        json.dump(m, f, indent=1)
        f.write("\n")

if __name__ == "__main__":
    main()
