#!/bin/sh
# usage: tools/mut_c14_r8/direct.sh <patch> <lo> <hi> [seed]  — run cases [lo,hi) of phase r8 of the C14 worker against the mutant,
# one worker process per case (the orchestrator stops at the first phase that fails; this asks phase r8 on its own)
export GOFLAGS=-mod=mod GOPROXY=off GOSUMDB=off GOTOOLCHAIN=local
HERE=$(cd "$(dirname "$0")/../.." && pwd)
p=$(readlink -f "$1"); M=/tmp/h8-C14-x
git -C /repo worktree remove --force $M >/dev/null 2>&1
git -C /repo worktree add -q --detach $M HEAD || exit 3
git -C $M apply "$p" || { git -C /repo worktree remove --force $M; exit 3; }
sed "s|=> /repo|=> $M|" $HERE/harness/go.mod > /tmp/h8-C14-alt.mod; cp $HERE/harness/go.sum /tmp/h8-C14-alt.sum
(cd $HERE/harness && go build -tags verif -modfile=/tmp/h8-C14-alt.mod -o /tmp/h8-C14-vw-mut ./cmd/vworker) || { git -C /repo worktree remove --force $M; exit 3; }
i=$2
while [ $i -lt $3 ]; do
  /tmp/h8-C14-vw-mut -prop C14 -tier ${TIER:-quick} -seed ${4:-1} -phase r8 -lo $i -hi $((i+1)) -v 2>&1 | grep '"t":"viol"' | python3 -c "
import sys,json
for l in sys.stdin:
    r=json.loads(l); print('case',r['case'],r['sig'],'|',r['detail'][:200])
" | head -${SIGS:-3}
  i=$((i+1))
done
rm -f /tmp/h8-C14-vw-mut /tmp/h8-C14-alt.mod /tmp/h8-C14-alt.sum
git -C /repo worktree remove --force $M; git -C /repo worktree prune
