#!/bin/sh
# usage: tools/mut_c14_r8/run.sh <patch>...  — for every mutant: apply to a scratch worktree of /repo, build, run the
# repository's own suite, run `vcheck run C14 --tier quick` of THIS harness tree against it; prints one line per step
export GOFLAGS=-mod=mod GOPROXY=off GOSUMDB=off GOTOOLCHAIN=local
HERE=$(cd "$(dirname "$0")/../.." && pwd)
for patch in "$@"; do
  p=$(readlink -f "$patch"); M=/tmp/h8-C14-m$$
  git -C /repo worktree add -q --detach $M HEAD || exit 3
  echo "== $(basename $p .diff)"
  if git -C $M apply "$p" && (cd $M && go build ./... ); then
    suite=$(cd $M && go test -vet=off -count=1 ./... 2>&1 | grep -E "^(FAIL|---)" | head -5)
    echo "   suite: ${suite:-all ok}"
    VERIF_REPO=$M $HERE/vcheck run C14 --tier ${TIER:-quick} > /tmp/h8-C14-mut-$$.out 2>&1; rc=$?
    echo "   check C14 exit=$rc viol_lines=$(grep -c '^VIOLATION' /tmp/h8-C14-mut-$$.out) sigs: $(grep 'signature:' /tmp/h8-C14-mut-$$.out | sed 's/^ *signature: //' | sort | uniq -c | sort -rn | head -4 | tr '\n' ';' | cut -c1-400)"
  else
    echo "   DOES NOT APPLY OR COMPILE"
  fi
  rm -f /tmp/h8-C14-mut-$$.out
  git -C /repo worktree remove --force $M; git -C /repo worktree prune
done
