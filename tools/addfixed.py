#!/usr/bin/env python3
"""addfixed.py <property> <commit> <what failed> — append a `fixed:` entry to known_findings.json (suppresses nothing)."""
import json, sys
p, c, what = sys.argv[1], sys.argv[2], sys.argv[3]
k = json.load(open("/verif/known_findings.json"))
k["findings"].append({"property": p, "status": "fixed", "sig": "", "commit": c, "what": what,
                      "line": "fixed: property=%s %s %s" % (p, c, what)})
json.dump(k, open("/verif/known_findings.json", "w"), indent=1)
