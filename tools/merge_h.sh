#!/bin/bash
# usage: tools/merge_h.sh <branch e.g. h8-C12>: engine files, mutations, notes, findings of a helper branch
set -e
br=$1; p=${br#*-}
cd /verif
python3 tools/merge_agent.py $br
for f in $(git ls-tree --name-only $br | grep -E '^(NOTES|GENUINE)-'); do git show $br:$f > notes/$f; done
for d in $(git ls-tree -d --name-only $br:tools | grep '^mut_'); do [ -d tools/$d ] || git checkout $br -- tools/$d; done
(cd harness && GOFLAGS=-mod=mod GOPROXY=off GOSUMDB=off GOTOOLCHAIN=local go build -tags verif -o /dev/null ./cmd/vworker)
git add -A harness tools notes known_findings.json
git commit -qm "merge $br" && echo "merged $br"
