#!/bin/sh
# usage: tools/mut_c02_r8/direct.sh <patch.diff> <phase> <lo> <hi> [seed]  — runs cases [lo,hi) of ONE phase of the C02 worker
# against the mutant (quicker than the whole check when one phase is asked)
export GOFLAGS=-mod=mod GOPROXY=off GOSUMDB=off GOTOOLCHAIN=local
HERE=$(cd "$(dirname "$0")/../.." && pwd)
p=$(readlink -f "$1"); M=/tmp/h8-C02-dir-$$
git -C /repo worktree add -q --detach $M HEAD || exit 3
trap "git -C /repo worktree remove --force $M 2>/dev/null; git -C /repo worktree prune; rm -f /tmp/h8-C02-dir-$$.mod /tmp/h8-C02-dir-$$.sum /tmp/h8-C02-dir-$$.vw" EXIT
git -C $M apply "$p" || exit 3
sed "s|=> /repo|=> $M|" $HERE/harness/go.mod > /tmp/h8-C02-dir-$$.mod; cp $HERE/harness/go.sum /tmp/h8-C02-dir-$$.sum
(cd $HERE/harness && go build -tags verif -modfile=/tmp/h8-C02-dir-$$.mod -o /tmp/h8-C02-dir-$$.vw ./cmd/vworker) || exit 3
i=$3
while [ $i -lt $4 ]; do
  /tmp/h8-C02-dir-$$.vw -prop C02 -tier ${TIER:-quick} -seed ${5:-1} -phase $2 -lo $i -hi $((i+1)) -v 2>&1 | grep '"t":"viol"' | python3 -c "
import sys,json
for l in sys.stdin:
    r=json.loads(l); print('case',r['case'],r['sig'],'|',r['detail'][:160])
" | head -${SIGS:-2}
  i=$((i+1))
done
