#!/bin/sh
# usage: tools/mut.sh '<python snippet editing files under $M>' PROP...   — scratch-copy mutation test
# The snippet gets M (scratch dir) in the environment and must edit files there.
M=/tmp/mut-main-$$
git -C /repo worktree add -q $M HEAD || exit 3
snippet="$1"; shift
M=$M python3 -c "$snippet" || { echo "mutation failed to apply"; git -C /repo worktree remove --force $M; exit 3; }
(cd $M && git diff --stat | tail -1)
(cd $M && GOFLAGS=-mod=mod GOPROXY=off go build ./... ) || { echo "MUTANT DOES NOT COMPILE"; git -C /repo worktree remove --force $M; exit 3; }
for p in "$@"; do
  VERIF_REPO=$M /verif/vcheck run $p --tier ${TIER:-quick} > /tmp/mut-out-$$.txt 2>&1; rc=$?
  echo "== $p exit=$rc: $(grep -c '^VIOLATION' /tmp/mut-out-$$.txt) VIOLATION lines; sigs: $(grep 'signature:' /tmp/mut-out-$$.txt | sort | uniq -c | sort -rn | head -4 | tr '\n' ';')"
  tail -1 /tmp/mut-out-$$.txt | cut -c1-200
done
rm -f /tmp/mut-out-$$.txt
git -C /repo worktree remove --force $M; git -C /repo worktree prune
