#!/usr/bin/env python3
"""merge_agent.py <branch>: take the engine files of an agent branch and merge its known_findings entries."""
import json, subprocess, sys
br = sys.argv[1]
files = subprocess.check_output(["git", "diff", "--name-only", "main..." + br], text=True).split()
for f in files:
    if f.startswith("harness/"):
        subprocess.check_call(["git", "checkout", br, "--", f])
        print("took", f)
theirs = json.loads(subprocess.check_output(["git", "show", br + ":known_findings.json"], text=True))
mine = json.load(open("known_findings.json"))
have = {(f["property"], f["sig"], f.get("status")) for f in mine["findings"]}
for f in theirs["findings"]:
    k = (f["property"], f["sig"], f.get("status"))
    if k not in have:
        mine["findings"].append(f)
        print("finding", f["property"], f["sig"])
json.dump(mine, open("known_findings.json", "w"), indent=1)
