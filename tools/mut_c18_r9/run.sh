#!/bin/sh
# usage: tools/mut_c18_r9/run.sh <patch>...   — apply each patch to a scratch worktree of /repo, build it, run the repo's
# suite (SUITE=0 to skip), then the C18 quick tier of this checkout against it (VCHECK=... to ask another checkout;
# VERIF_SEED, VERIF_JOBS, TIER honoured). The scratch worktree is removed afterwards.
export GOFLAGS=-mod=mod GOPROXY=off GOSUMDB=off GOTOOLCHAIN=local
HERE=$(cd "$(dirname "$0")/../.." && pwd)
VCHECK=${VCHECK:-$HERE/vcheck}
for p in "$@"; do
  p=$(readlink -f "$p")
  M=/tmp/h9-C18-x
  git -C /repo worktree remove --force $M >/dev/null 2>&1
  git -C /repo worktree add -q --detach $M HEAD || exit 3
  if ! git -C $M apply "$p"; then echo "$p: DOES NOT APPLY"; git -C /repo worktree remove --force $M; continue; fi
  if ! (cd $M && go build ./... ); then echo "$p: DOES NOT COMPILE"; git -C /repo worktree remove --force $M; continue; fi
  if [ "${SUITE:-1}" = 1 ]; then
    suite=$(cd $M && go test -vet=off -count=1 ./... 2>&1 | grep -E "^(FAIL|---|ok)" | grep -v "^ok" | head -5)
    echo "== $(basename $p) suite: ${suite:-all ok}"
  fi
  VERIF_REPO=$M VERIF_JOBS=${VERIF_JOBS:-6} $VCHECK run C18 --tier ${TIER:-quick} > /tmp/h9-C18-mut-out.txt 2>&1; rc=$?
  echo "== $(basename $p) exit=$rc: $(grep -c '^VIOLATION' /tmp/h9-C18-mut-out.txt) VIOLATION lines"
  grep 'signature:' /tmp/h9-C18-mut-out.txt | sort | uniq -c | sort -rn | head -${SIGS:-8}
  tail -1 /tmp/h9-C18-mut-out.txt | cut -c1-220
  rm -f /tmp/h9-C18-mut-out.txt
  git -C /repo worktree remove --force $M; git -C /repo worktree prune
done
