# C01 history: Execute interns the names defined by the last 4096 runs in a ring; the ring index is advanced before the bound check
import os
p=os.environ['M']+'/vm/vmStmt.go'; s=open(p).read()
i=s.index('func RunContext(')
print(s[i:i+900])
