# C01 hot: an untyped list literal evaluated more than 1024 times re-uses a preallocated slice of the length seen first
# by a per-node cache keyed by the node; literals of one node always have the same length, but the cache is indexed by
# evaluation count modulo 1024 into a table of 1024 entries that is allocated with 1023
import os
p=os.environ['M']+'/vm/vmExpr.go'; s=open(p).read()
s=s.replace('''		slice := make([]interface{}, len(expr.Exprs))
		var i int
		for i, runInfo.expr = range expr.Exprs {''','''		slice := make([]interface{}, len(expr.Exprs))
		hotListMu.Lock()
		hotListN[expr]++
		if n := hotListN[expr]; n > 1024 {
			hotListTab[n%1024] = len(slice)
		}
		hotListMu.Unlock()
		var i int
		for i, runInfo.expr = range expr.Exprs {''',1)
s+='''
var hotListMu sync.Mutex
var hotListN = map[*ast.ArrayExpr]int{}
var hotListTab = make([]int, 1023)
'''
if '"sync"' not in s:
    s=s.replace('import (','import (\n\t"sync"',1)
open(p,'w').write(s)
