# C01 sizes: the one-byte string at an index is cut from a 64 KiB scratch copy ("avoids keeping a long string alive"): index out of range for indices >= 65536
import os
p=os.environ['M']+'/vm/vmExpr.go'; s=open(p).read()
s=s.replace('''			runInfo.rv = reflect.ValueOf(item.String()[index : index+1])''','''			str := item.String()
			if len(str) > 65536 {
				var scratch [65536]byte
				copy(scratch[:], str)
				runInfo.rv = reflect.ValueOf(string(scratch[index : index+1]))
			} else {
				runInfo.rv = reflect.ValueOf(str[index : index+1])
			}''')
open(p,'w').write(s)
