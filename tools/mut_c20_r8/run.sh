#!/bin/sh
# usage: tools/mut_c20_r8/run.sh <patch>...   — apply each patch to a scratch worktree of /repo, build it, run the repo's
# own suite and the C20 quick tier against it (VCHECK=<other checkout>/vcheck to ask another checkout; VERIF_SEED honoured;
# SUITE=0 skips the repo's suite)
export GOFLAGS=-mod=mod GOPROXY=off GOSUMDB=off GOTOOLCHAIN=local
HERE=$(cd "$(dirname "$0")/../.." && pwd)
VCHECK=${VCHECK:-$HERE/vcheck}
for p in "$@"; do
  p=$(readlink -f "$p")
  M=/tmp/h8-C20-x
  git -C /repo worktree remove --force $M >/dev/null 2>&1
  git -C /repo worktree add -q --detach $M HEAD || exit 3
  if ! git -C $M apply "$p"; then echo "$p: DOES NOT APPLY"; git -C /repo worktree remove --force $M; continue; fi
  if ! (cd $M && go build ./... ); then echo "$p: DOES NOT COMPILE"; git -C /repo worktree remove --force $M; continue; fi
  if [ "${SUITE:-1}" = 1 ]; then
    echo "== $(basename $p) repo suite: $(cd $M && go test -vet=off -count=1 ./... 2>&1 | grep -E '^(FAIL|---|ok)' | grep -vc '^ok') failing lines"
  fi
  VERIF_REPO=$M VERIF_JOBS=${VERIF_JOBS:-6} $VCHECK run C20 --tier ${TIER:-quick} > /tmp/h8-C20-mut-out.txt 2>&1; rc=$?
  echo "== $(basename $p) exit=$rc: $(grep -c '^VIOLATION' /tmp/h8-C20-mut-out.txt) VIOLATION lines"
  grep 'signature:' /tmp/h8-C20-mut-out.txt | sed 's/:[0-9][0-9]*$//' | sort | uniq -c | sort -rn | head -${SIGS:-8}
  tail -1 /tmp/h8-C20-mut-out.txt | cut -c1-220
  rm -f /tmp/h8-C20-mut-out.txt
  git -C /repo worktree remove --force $M; git -C /repo worktree prune
done
