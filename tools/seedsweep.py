#!/usr/bin/env python3
"""seedsweep.py <P> <k> [extra checks...] — confirm one seeded change and run the checks against it; keeps it under
/verif/seeded/<P>-<k>/ (patch.diff, demo_test.go, meta.json) when confirmed."""
import json, os, re, shutil, subprocess, sys
P, k = sys.argv[1], sys.argv[2]
extra = sys.argv[3:]
src = "%s-%s/%s" % (os.environ.get("SEEDROOT", "/tmp/seed"), P, k)
checks = [P] + [c for c in extra if c != P]
out = subprocess.run(["/verif/tools/seedeval.sh", src] + checks, capture_output=True, text=True).stdout
print(out)
meta = json.load(open(src + "/meta.json"))
suite_ok = "suite-with-seed: all ok" in out
m = re.search(r"demo: with-seed exit=(\d+).*without exit=(\d+)", out)
demo_ok = bool(m and m.group(1) != "0" and m.group(2) == "0")
results = []
for line in out.splitlines():
    mm = re.match(r"check (\S+) tier=(\S+) exit=(\d+) viol_lines=(\d+) sigs: (.*)", line)
    if mm:
        results.append({"check": mm.group(1), "tier": mm.group(2), "exit": int(mm.group(3)), "violation_lines": int(mm.group(4)),
                        "signatures": [s.strip() for s in mm.group(5).split(";") if s.strip()]})
if not (suite_ok and demo_ok):
    print("NOT CONFIRMED (suite_ok=%s demo_ok=%s) — not kept" % (suite_ok, demo_ok)); sys.exit(1)
dst = "/verif/seeded/%s-%s%s" % (P, os.environ.get("SEEDTAG", ""), k)
os.makedirs(dst, exist_ok=True)
shutil.copy(src + ("/patch.rebased.diff" if os.path.exists(src + "/patch.rebased.diff") else "/patch.diff"), dst + "/patch.diff")
shutil.copy(src + "/demo_test.go", dst + "/demo_test.go")
head = subprocess.run(["git", "-C", "/repo", "log", "--format=%h", "-1"], capture_output=True, text=True).stdout.strip()
keep = {
    "property": P,
    "summary": meta.get("summary"),
    "needs_to_manifest": meta.get("needs"),
    "why_existing_tests_pass": meta.get("why_tests_pass"),
    "files": meta.get("files"),
    "origin": "written by a fresh sub-agent that was given only the property text and a scratch worktree of mattn/anko",
    "confirmed_by_me": {"repo_head": head, "builds": True, "baseline_suite_with_change": "all packages ok",
                        "demo": "demo_test.go (package demo, run as ./seeddemo/) fails with the change and passes without it",
                        "how": "tools/seedeval.sh in a scratch worktree of /repo (git worktree under /tmp, removed afterwards); checks run with VERIF_REPO pointing at it"},
    "demo_needs_race": meta.get("demo_needs_race", False),
    "checks_run": results,
    "caught_by": [r["check"] for r in results if r["exit"] == 1 and r["violation_lines"] > 0],
}
old = dst + "/meta.json"
if os.path.exists(old):
    prev = json.load(open(old))
    hist = prev.get("history", [])
    hist.append({"repo_head": prev.get("confirmed_by_me", {}).get("repo_head"), "checks_run": prev.get("checks_run"), "caught_by": prev.get("caught_by")})
    keep["history"] = hist
    if prev.get("note"):
        keep["note"] = prev["note"]  # e.g. why a change is not reported by design
json.dump(keep, open(old, "w"), indent=1)
print("kept", dst, "caught_by", keep["caught_by"])
