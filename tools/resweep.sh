#!/bin/bash
# usage: OUT=/abs/file.jsonl tools/resweep.sh <seedname>...   (e.g. C05-r8-1)
# Re-evaluates kept seeded changes against the checks of THIS checkout (the directory the script lies in): for each
# seed a scratch worktree of /repo's HEAD gets the patch, the quick check of the seed's property runs with
# VERIF_REPO pointing at it, and one JSON line {seed, exit, violation_lines, sigs, repo_head, verif_head} is appended to
# $OUT. The change itself is not re-confirmed here (tools/seedeval.sh does that when a seed is first kept).
export GOFLAGS=-mod=mod GOPROXY=off GOSUMDB=off GOTOOLCHAIN=local
HERE=$(cd "$(dirname "$0")/.." && pwd)
OUT=${OUT:-/tmp/resweep.jsonl}
RH=$(git -C /repo log --format=%h -1); VH=$(git -C $HERE log --format=%h -1 2>/dev/null)
for s in "$@"; do
  SD=/verif/seeded/$s
  P=${s%%-*}
  M=/tmp/rs-$$-$s
  git -C /repo worktree add -q --detach $M HEAD || { echo "{\"seed\":\"$s\",\"error\":\"worktree\"}" >> $OUT; continue; }
  ok=0
  for PATCH in $SD/patch.rebased.diff $SD/patch.diff; do
    [ -f $PATCH ] || continue
    if git -C $M apply $PATCH 2>/dev/null; then ok=1; break; fi
    git -C $M reset -q --hard; git -C $M clean -qfd
    if (cd $M && patch -p1 -F3 -N --no-backup-if-mismatch < $PATCH >/dev/null 2>&1); then ok=1; break; fi
    git -C $M reset -q --hard; git -C $M clean -qfd
  done
  if [ $ok = 1 ] && (cd $M && go build ./... >/dev/null 2>&1); then
    VERIF_REPO=$M $HERE/vcheck run $P --tier ${TIER:-quick} > /tmp/rs-$$-$s.out 2>&1; rc=$?
    vl=$(grep -c '^VIOLATION' /tmp/rs-$$-$s.out)
    sigs=$(grep 'signature:' /tmp/rs-$$-$s.out | sed 's/^ *signature: //' | sort | uniq -c | sort -rn | head -3 | tr '\n' ';' | cut -c1-300 | tr -d '"\\')
    echo "{\"seed\":\"$s\",\"check\":\"$P\",\"tier\":\"${TIER:-quick}\",\"exit\":$rc,\"violation_lines\":$vl,\"sigs\":\"$sigs\",\"repo_head\":\"$RH\",\"verif_head\":\"$VH\"}" >> $OUT
    echo "$s exit=$rc viol=$vl $sigs"
  else
    echo "{\"seed\":\"$s\",\"error\":\"apply-or-build\",\"repo_head\":\"$RH\"}" >> $OUT
    echo "$s APPLY-OR-BUILD-FAILED"
  fi
  rm -f /tmp/rs-$$-$s.out
  git -C /repo worktree remove --force $M 2>/dev/null; git -C /repo worktree prune
done
