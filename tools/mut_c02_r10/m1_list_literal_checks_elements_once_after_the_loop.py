# usage: M=<scratch worktree of /repo> python3 m1_...py
# Untyped list literal [a, b, c]: all elements are evaluated first and the error is looked at once after the
# loop ("a literal with a failed element has no value"). runInfo.err is not sticky: a later element that reads
# a variable stores a nil error, so the failure (the interruption) of an earlier element is lost.
import os
p = os.environ['M'] + '/vm/vmExpr.go'
s = open(p).read()
old = '''		for i, runInfo.expr = range expr.Exprs {
			runInfo.invokeExpr()
			if runInfo.err != nil {
				return
			}
			slice[i] = runInfo.rv.Interface()
		}
		runInfo.rv = reflect.ValueOf(slice)
		return
'''
new = '''		for i, runInfo.expr = range expr.Exprs {
			runInfo.invokeExpr()
			if runInfo.err == nil {
				slice[i] = runInfo.rv.Interface()
			}
		}
		// a literal with a failed element has no value
		if runInfo.err != nil {
			runInfo.rv = nilValue
			return
		}
		runInfo.rv = reflect.ValueOf(slice)
		return
'''
assert s.count(old) == 1
open(p, 'w').write(s.replace(old, new))
