#!/bin/sh
# usage: tools/mut_c02_r10/run.sh <mutation.py> [suite]   — applies one mutation script to a scratch worktree of /repo,
# builds it, (with "suite": runs the repo's own tests), runs this worktree's `vcheck run C02 --tier quick` against it and
# prints exit status, VIOLATION count and signatures. Nothing in /repo changes; the scratch worktree is removed.
export GOFLAGS=-mod=mod GOPROXY=off GOSUMDB=off GOTOOLCHAIN=local
HERE=$(cd "$(dirname "$0")/../.." && pwd)
p=$(readlink -f "$1"); M=/tmp/h10-C02-mut-$$
git -C /repo worktree add -q --detach $M HEAD || exit 3
trap "git -C /repo worktree remove --force $M 2>/dev/null; git -C /repo worktree prune; rm -f /tmp/h10-C02-mut-$$.out" EXIT
M=$M python3 "$p" || { echo "MUTATION DOES NOT APPLY"; exit 3; }
(cd $M && go build ./...) || { echo "MUTANT DOES NOT COMPILE"; exit 3; }
if [ "$2" = suite ]; then
  s=$(cd $M && go test -vet=off -count=1 ./... 2>&1 | grep -E "^(FAIL|---)" | head -5)
  echo "repo suite with the mutation: ${s:-all ok}"
fi
VERIF_REPO=$M VERIF_JOBS=${VERIF_JOBS:-8} $HERE/vcheck run C02 --tier ${TIER:-quick} > /tmp/h10-C02-mut-$$.out 2>&1; rc=$?
echo "== $(basename $p): exit=$rc viol_lines=$(grep -c '^VIOLATION' /tmp/h10-C02-mut-$$.out) sigs: $(grep 'signature:' /tmp/h10-C02-mut-$$.out | sed 's/^ *signature: //' | sort | uniq -c | sort -rn | head -4 | tr '\n' ';' | cut -c1-400)"
grep SUMMARY /tmp/h10-C02-mut-$$.out | cut -c1-200
