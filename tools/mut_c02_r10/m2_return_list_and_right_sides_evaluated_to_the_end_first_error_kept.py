# usage: M=<scratch worktree of /repo> python3 m2_...py
# Return lists (return a, b) and the right sides of a multi-assignment (x, y = a, b) are evaluated to the end
# even when one of them failed; the FIRST error is remembered and reported afterwards. The error is not lost,
# but the operands after the interrupted one are still evaluated (host calls among them are made).
import os
p = os.environ['M'] + '/vm/vmStmt.go'
s = open(p).read()
old1 = '''	for i, runInfo.expr = range stmt.RHSS {
		runInfo.invokeExpr()
		if runInfo.err != nil {
			return
		}
		if env, ok'''
new1 = '''	var firstErr error
	for i, runInfo.expr = range stmt.RHSS {
		runInfo.invokeExpr()
		if runInfo.err != nil {
			if firstErr == nil {
				firstErr = runInfo.err
			}
			rvs[i] = nilValue
			continue
		}
		if env, ok'''
assert s.count(old1) == 1
s = s.replace(old1, new1)
old2 = '''	if len(rvs) == 1 && len(stmt.LHSS) > 1 {
		// only one right side value'''
new2 = '''	if firstErr != nil {
		runInfo.err = firstErr
		runInfo.rv = nilValue
		return
	}

	if len(rvs) == 1 && len(stmt.LHSS) > 1 {
		// only one right side value'''
assert s.count(old2) == 1
s = s.replace(old2, new2)
old3 = '''	for i, runInfo.expr = range stmt.Exprs {
		runInfo.invokeExpr()
		if runInfo.err != nil {
			return
		}
		rvs[i] = runInfo.rv.Interface()
	}
	runInfo.rv = reflect.ValueOf(rvs)
'''
new3 = '''	var firstErr error
	for i, runInfo.expr = range stmt.Exprs {
		runInfo.invokeExpr()
		if runInfo.err != nil {
			if firstErr == nil {
				firstErr = runInfo.err
			}
			continue
		}
		rvs[i] = runInfo.rv.Interface()
	}
	if firstErr != nil {
		runInfo.err = firstErr
		runInfo.rv = nilValue
		return
	}
	runInfo.rv = reflect.ValueOf(rvs)
'''
assert s.count(old3) == 1
s = s.replace(old3, new3)
open(p, 'w').write(s)
