#!/bin/sh
# usage: tools/mut_c15_r8/direct.sh <patch> <phase> <lo> <hi> [seed]  — run cases [lo,hi) of ONE phase of the C15 worker against the
# mutant, one process per case (the orchestrator stops widening after the first failing phase; this asks a later phase on its own).
# RACE=1 builds the -race flavour (phase racehist).
export GOFLAGS=-mod=mod GOPROXY=off GOSUMDB=off GOTOOLCHAIN=local
HERE=$(cd "$(dirname "$0")/../.." && pwd)
p=$(readlink -f "$1"); M=/tmp/h8-C15-d-$$
git -C /repo worktree add -q --detach $M HEAD || exit 3
[ "$1" = none ] || git -C $M apply "$p" || { git -C /repo worktree remove --force $M; exit 3; }
sed "s|=> /repo|=> $M|" $HERE/harness/go.mod > /tmp/h8-C15-alt-$$.mod; cp $HERE/harness/go.sum /tmp/h8-C15-alt-$$.sum
(cd $HERE/harness && go build ${RACE:+-race} -tags verif -modfile=/tmp/h8-C15-alt-$$.mod -o /tmp/h8-C15-vw-mut-$$ ./cmd/vworker) || { git -C /repo worktree remove --force $M; exit 3; }
i=$3
while [ $i -lt $4 ]; do
  /tmp/h8-C15-vw-mut-$$ -prop C15 -tier ${TIER:-quick} -seed ${5:-1} -phase $2 -lo $i -hi $((i+1)) -v 2>&1 | grep '"t":"viol"' | python3 -c "
import sys,json
for l in sys.stdin:
    r=json.loads(l); print('case',r['case'],r['sig'],'|',r['detail'][:${DETAIL:-240}])
" | head -${SIGS:-4}
  i=$((i+1))
done
rm -f /tmp/h8-C15-vw-mut-$$ /tmp/h8-C15-alt-$$.mod /tmp/h8-C15-alt-$$.sum
git -C /repo worktree remove --force $M; git -C /repo worktree prune
