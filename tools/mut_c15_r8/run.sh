#!/bin/sh
# usage: tools/mut_c15_r8/run.sh <patch>...   — apply each patch to a scratch worktree of /repo, build it, (SUITE=1: run the
# repository's own test suite,) run the C15 quick tier of THIS checkout against it and print the signatures reported.
# (VCHECK=/verif/vcheck to ask another checkout; VERIF_SEED, TIER honoured)
export GOFLAGS=-mod=mod GOPROXY=off GOSUMDB=off GOTOOLCHAIN=local
HERE=$(cd "$(dirname "$0")/../.." && pwd)
VCHECK=${VCHECK:-$HERE/vcheck}
for p in "$@"; do
  p=$(readlink -f "$p")
  M=/tmp/h8-C15-x-$$
  git -C /repo worktree remove --force $M >/dev/null 2>&1
  git -C /repo worktree add -q --detach $M HEAD || exit 3
  if ! git -C $M apply "$p"; then echo "$p: DOES NOT APPLY"; git -C /repo worktree remove --force $M; continue; fi
  if ! (cd $M && go build ./... ); then echo "$p: DOES NOT COMPILE"; git -C /repo worktree remove --force $M; continue; fi
  if [ -n "$SUITE" ]; then
    suite=$(cd $M && go test -vet=off -count=1 ./... 2>&1 | grep -E "^(FAIL|---|panic)" | head -5)
    echo "== $(basename $p) repo suite: ${suite:-all ok}"
  fi
  if [ -z "$NOCHECK" ]; then
    VERIF_REPO=$M VERIF_JOBS=${VERIF_JOBS:-6} $VCHECK run C15 --tier ${TIER:-quick} > /tmp/h8-C15-mut-out-$$.txt 2>&1; rc=$?
    echo "== $(basename $p) exit=$rc: $(grep -c '^VIOLATION' /tmp/h8-C15-mut-out-$$.txt) VIOLATION lines"
    grep 'signature:' /tmp/h8-C15-mut-out-$$.txt | sort | uniq -c | sort -rn | head -${SIGS:-8}
    tail -1 /tmp/h8-C15-mut-out-$$.txt | cut -c1-220
    rm -f /tmp/h8-C15-mut-out-$$.txt
  fi
  git -C /repo worktree remove --force $M; git -C /repo worktree prune
done
