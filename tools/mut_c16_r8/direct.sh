#!/bin/sh
# usage: tools/mut_c16_r8/direct.sh <patch> [phase [lo hi [seed]]]  — apply one mutation to a scratch worktree of /repo, build it,
# run the repo's own suite (SUITE=0 skips that), then run cases [lo,hi) of ONE phase (default: the whole phase volume) of
# this worktree's C16 worker against the mutant and print the signatures reported. FULL=1 runs `vcheck run C16` instead.
export GOFLAGS=-mod=mod GOPROXY=off GOSUMDB=off GOTOOLCHAIN=local
HERE=$(cd "$(dirname "$0")/../.." && pwd)
p=$(readlink -f "$1"); tag=$$; M=/tmp/h8-C16-x$tag
git -C /repo worktree add -q --detach $M HEAD || exit 3
trap "git -C /repo worktree remove --force $M 2>/dev/null; git -C /repo worktree prune; rm -rf /tmp/h8-C16-alt$tag.mod /tmp/h8-C16-alt$tag.sum /tmp/h8-C16-vw$tag /tmp/h8-C16-o$tag" EXIT
git -C $M apply "$p" || exit 3
(cd $M && go build ./...) || { echo "MUTANT DOES NOT COMPILE"; exit 3; }
if [ "${SUITE:-1}" = 1 ]; then
  s=$(cd $M && go test -vet=off -count=1 ./... 2>&1 | grep -E "^(FAIL|---)" | head -3); echo "suite-with-mutant: ${s:-all ok}"
fi
if [ "${FULL:-0}" = 1 ]; then
  VERIF_REPO=$M VERIF_JOBS=${VERIF_JOBS:-6} $HERE/vcheck run C16 --tier ${TIER:-quick} > /tmp/h8-C16-o$tag 2>&1; rc=$?
  echo "vcheck exit=$rc viol_lines=$(grep -c '^VIOLATION' /tmp/h8-C16-o$tag) sigs: $(grep 'signature:' /tmp/h8-C16-o$tag | sed 's/^ *signature: //' | sort | uniq -c | sort -rn | head -4 | tr '\n' ';')"
  exit 0
fi
sed "s|=> /repo|=> $M|" $HERE/harness/go.mod > /tmp/h8-C16-alt$tag.mod; cp $HERE/harness/go.sum /tmp/h8-C16-alt$tag.sum
(cd $HERE/harness && go build -tags verif -modfile=/tmp/h8-C16-alt$tag.mod -o /tmp/h8-C16-vw$tag ./cmd/vworker) || exit 3
ph=${2:-volume}; lo=${3:-0}; hi=${4:-17}; i=$lo
while [ $i -lt $hi ]; do
  /tmp/h8-C16-vw$tag -prop C16 -tier ${TIER:-quick} -seed ${5:-1} -phase $ph -lo $i -hi $((i+1)) -v 2>&1 | grep -E '"t":"(viol|inconc)"' | python3 -c "
import sys,json
for l in sys.stdin:
    r=json.loads(l); print('case',r['case'],r['t'],r['sig'],'|',r['detail'][:160].replace('\n',' '))
" | head -${SIGS:-3}
  i=$((i+1))
done
