#!/bin/sh
# usage: tools/mut_c12_r8/direct.sh <patch> [seed]  — run the three round-8 phases of the C12 worker (quick tier lists) against the mutant,
# each phase on its own (the orchestrator stops at the first phase that fails, and the older phases come first)
export GOFLAGS=-mod=mod GOPROXY=off GOSUMDB=off GOTOOLCHAIN=local
HERE=$(cd "$(dirname "$0")/../.." && pwd)
p=$(readlink -f "$1"); M=/tmp/h8-C12-x; S=/tmp/h8-C12-direct
git -C /repo worktree remove --force $M >/dev/null 2>&1
git -C /repo worktree add -q --detach $M HEAD || exit 3
mkdir -p $S
git -C $M apply "$p" || { git -C /repo worktree remove --force $M; exit 3; }
sed "s|=> /repo|=> $M|" $HERE/harness/go.mod > $S/alt.mod; cp $HERE/harness/go.sum $S/alt.sum
(cd $HERE/harness && go build -tags verif -modfile=$S/alt.mod -o $S/vw-mut ./cmd/vworker) || { git -C /repo worktree remove --force $M; exit 3; }
echo "== $(basename $p)"
$S/vw-mut -prop C12 -tier ${TIER:-quick} -plan | python3 -c "
import sys,json
for ph in json.load(sys.stdin)['phases']:
    if ph['name'] in ('volume','hot','stream'): print(ph['name'],ph['cases'])
" | while read ph n; do
  rm -f $S/o.res $S/o.cur
  $S/vw-mut -prop C12 -tier ${TIER:-quick} -seed ${2:-1} -phase $ph -lo 0 -hi $n -out $S/o >/dev/null 2>&1
  grep '"t":"viol"' $S/o.res | python3 -c "
import sys,json,collections
c=collections.Counter(); ex={}
for l in sys.stdin:
    r=json.loads(l); c[r['sig']]+=1; ex.setdefault(r['sig'],r['detail'][:160])
print('  phase $ph:', sum(c.values()), 'violations')
for k,v in c.most_common(${SIGS:-4}): print('    ',v,k,'|',ex[k])
"
done
git -C /repo worktree remove --force $M; git -C /repo worktree prune; rm -rf $S
