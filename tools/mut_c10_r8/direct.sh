#!/bin/sh
# usage: tools/mut_c10_r8/direct.sh <patch> <phase> <lo> <hi> [seed]  — run cases [lo,hi) of ONE phase of the C10 worker against the
# mutant (the orchestrator stops at the first phase that fails; this asks a later phase on its own)
export GOFLAGS=-mod=mod GOPROXY=off GOSUMDB=off GOTOOLCHAIN=local
HERE=$(cd "$(dirname "$0")/../.." && pwd)
p=$(readlink -f "$1"); M=/tmp/h8-C10-mutd; T=/tmp/h8-C10-mutd-tmp
git -C /repo worktree remove --force $M >/dev/null 2>&1
git -C /repo worktree add -q --detach $M HEAD || exit 3
mkdir -p $T
git -C $M apply "$p" || { git -C /repo worktree remove --force $M; exit 3; }
sed "s|=> /repo|=> $M|" $HERE/harness/go.mod > $T/alt.mod; cp $HERE/harness/go.sum $T/alt.sum
(cd $HERE/harness && go build -tags verif -modfile=$T/alt.mod -o $T/vw ./cmd/vworker) || { git -C /repo worktree remove --force $M; rm -rf $T; exit 3; }
$T/vw -prop C10 -tier ${TIER:-quick} -seed ${5:-1} -phase $2 -lo $3 -hi $4 -out $T/out >/dev/null 2>&1
python3 - $T/out.res <<'PY'
import sys,json,collections
sigs=collections.Counter(); first={}
for l in open(sys.argv[1]):
    r=json.loads(l)
    if r.get('t')=='viol':
        sigs[r['sig']]+=1; first.setdefault(r['sig'], (r['case'], r['detail'][:170]))
for s,n in sigs.most_common(8): print(n, s, '| case', first[s][0], first[s][1])
print('violations:', sum(sigs.values()))
PY
git -C /repo worktree remove --force $M; git -C /repo worktree prune; rm -rf $T
