#!/usr/bin/env python3
"""fill_design.py: (re)generates the generated blocks of DESIGN.md and tools/round8_texts.json from
seeded/*/meta.json and notes/NOTES-*.md. Blocks are kept between <!-- NAME --> and <!-- /NAME -->."""
import json, glob, os, re, subprocess, sys
ROOT = os.path.dirname(os.path.dirname(os.path.abspath(__file__)))
D = os.path.join(ROOT, "DESIGN.md")
s = open(D).read()

def table(tag):
    rows = ["| seed | change | reported by (quick tier) |", "|---|---|---|"]
    for d in sorted(glob.glob(os.path.join(ROOT, "seeded", "*-%s-*" % tag))):
        m = json.load(open(d + "/meta.json"))
        caught = ", ".join(m.get("caught_by") or []) or ("— (see text)" if m.get("note") else "— (not reported)")
        t = (m.get("summary") or "").replace("\n", " ").replace("|", "/")[:150]
        rows.append("| %s | %s | %s |" % (os.path.basename(d), t, caught))
    return "\n".join(rows)

def section(path, letter):
    out, on = [], False
    for ln in open(path):
        if ln.startswith("## "):
            on = ln.lower().startswith("## (%s)" % letter)
            continue
        if on:
            out.append(ln.rstrip("\n"))
    return "\n".join(out).strip()

def agents(prefix):
    parts = []
    for f in sorted(glob.glob(os.path.join(ROOT, "notes", "NOTES-%s-C*.md" % prefix))):
        prop = re.search(r"-(C\d\d)\.md$", f).group(1)
        txt = section(f, "b")
        if txt:
            parts.append("**%s** (engine strengthened by a helper agent on a branch, merged; notes/%s). %s" % (prop, os.path.basename(f), re.sub(r"\s*\n\s*", " ", txt)))
    return "\n\n".join(parts)

blocks = {"ROUND7-TABLE": table("r7"), "ROUND8-TABLE": table("r8"), "ROUND9-TABLE": table("r9"), "ROUND10-TABLE": table("r10"),
          "ROUND8-AGENTS": agents("h8"), "ROUND9-AGENTS": agents("h9"), "ROUND10-AGENTS": agents("h10")}
for name, body in blocks.items():
    new = "<!-- %s -->\n%s\n<!-- /%s -->" % (name, body, name)
    pat = re.compile(r"<!-- %s -->.*?<!-- /%s -->" % (name, name), re.S)
    if pat.search(s):
        s = pat.sub(lambda m: new, s)
    elif re.search(r"^%s$" % name, s, re.M):
        s = re.sub(r"^%s$" % name, lambda m: new, s, count=1, flags=re.M)
open(D, "w").write(s)

# level texts of the engines strengthened by helpers
tx = {}
for f in sorted(glob.glob(os.path.join(ROOT, "notes", "NOTES-h*-C*.md"))):
    prop = re.search(r"-(C\d\d)\.md$", f).group(1)
    t = re.sub(r"\s*\n\s*", " ", section(f, "a")).strip()
    if t:
        tx[prop] = (tx.get(prop, "") + " " + t).strip()
json.dump(tx, open(os.path.join(ROOT, "tools", "round8_texts.json"), "w"), indent=1, sort_keys=True)
print("blocks:", {k: len(v) for k, v in blocks.items()}, "texts:", sorted(tx))
