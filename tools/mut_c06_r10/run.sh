#!/bin/sh
# usage: tools/mut_c06_r10/run.sh <patch>...   — apply each patch to a scratch worktree of /repo, build it, (SUITE=1: run the
# repo's own suite,) run the C06 quick tier of THIS checkout against it (VCHECK=... to ask another checkout; VERIF_SEED honoured)
export GOFLAGS=-mod=mod GOPROXY=off GOSUMDB=off GOTOOLCHAIN=local
HERE=$(cd "$(dirname "$0")/../.." && pwd)
VCHECK=${VCHECK:-$HERE/vcheck}
for p in "$@"; do
  p=$(readlink -f "$p")
  M=/tmp/h10-C06-m
  git -C /repo worktree remove --force $M >/dev/null 2>&1
  git -C /repo worktree add -q --detach $M HEAD || exit 3
  if ! git -C $M apply "$p"; then echo "$p: DOES NOT APPLY"; git -C /repo worktree remove --force $M; continue; fi
  if ! (cd $M && go build ./... ); then echo "$p: DOES NOT COMPILE"; git -C /repo worktree remove --force $M; continue; fi
  if [ -n "$SUITE" ]; then
    suite=$(cd $M && go test -vet=off -count=1 ./... 2>&1 | grep -E "^(FAIL|---)" | head -5)
    echo "== $(basename $p) repo suite: ${suite:-all ok}"
  fi
  VERIF_REPO=$M VERIF_JOBS=${VERIF_JOBS:-8} $VCHECK run C06 --tier ${TIER:-quick} > /tmp/h10-C06-mut-out.txt 2>&1; rc=$?
  echo "== $(basename $p) exit=$rc: $(grep -c '^VIOLATION' /tmp/h10-C06-mut-out.txt) VIOLATION lines"
  grep 'signature:' /tmp/h10-C06-mut-out.txt | sort | uniq -c | sort -rn | head -${SIGS:-6}
  tail -1 /tmp/h10-C06-mut-out.txt | cut -c1-220
  git -C /repo worktree remove --force $M; git -C /repo worktree prune
done
rm -f /tmp/h10-C06-mut-out.txt
