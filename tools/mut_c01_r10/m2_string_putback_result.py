# C01 refused: a store into a character of a string that is not addressable builds the new string and puts it back into the
# place the string came from. "On a refused put-back the statement's value is the character that stays": the error path reads
# item.Index(index) - for the automatic append (index == len) that is one past the end: reflect panics
# ("abc"[3] = "x", f()[len] = v with f returning a string, s[0:2][2] = "x").
import os
p=os.environ['M']+'/vm/vmLetExpr.go'; s=open(p).read()
old='''		runInfo.rv = reflect.ValueOf(item.String() + value.String())
		runInfo.expr = expr.Item
		runInfo.invokeLetExpr()
		return'''
new='''		runInfo.rv = reflect.ValueOf(item.String() + value.String())
		runInfo.expr = expr.Item
		runInfo.invokeLetExpr()
		if runInfo.err != nil {
			runInfo.rv = item.Index(index)
		}
		return'''
assert old in s
open(p,'w').write(s.replace(old,new))
