# C01 refused: a store into an entry of a NIL map makes a map, stores the entry and puts the map back into the place it came
# from. "When the put-back is refused the fresh map must not keep the entry": the cleanup on the error path deletes the key
# again - but it reads the key from runInfo.rv, which the refused put-back has overwritten with the untyped nil value:
# SetMapIndex panics for every key type that is not an interface (gNilMap()["k"] = 1, f()[0] = v with f returning a nil map).
import os
p=os.environ['M']+'/vm/vmLetExpr.go'; s=open(p).read()
old='''		runInfo.expr = expr.Item
		runInfo.invokeLetExpr()
		// the stored value (a NaN key cannot be looked up again)
		runInfo.rv = value
		return'''
new='''		runInfo.expr = expr.Item
		runInfo.invokeLetExpr()
		if runInfo.err != nil {
			// the map was not taken: do not keep the entry alive in it
			item.SetMapIndex(runInfo.rv, reflect.Value{})
			return
		}
		// the stored value (a NaN key cannot be looked up again)
		runInfo.rv = value
		return'''
assert old in s
open(p,'w').write(s.replace(old,new))
