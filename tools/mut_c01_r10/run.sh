#!/bin/sh
# usage: tools/mut_c01_r10/run.sh <mutation.py>   - applies the mutation to a scratch worktree of /repo, builds, runs the
# repository's suite, then this worktree's ./vcheck run C01 --tier quick against it
export GOFLAGS=-mod=mod GOPROXY=off GOSUMDB=off GOTOOLCHAIN=local
HERE=$(cd "$(dirname "$0")/../.." && pwd)
M=/tmp/h10-C01-mut-$$
git -C /repo worktree add -q --detach $M HEAD || exit 3
trap "git -C /repo worktree remove --force $M 2>/dev/null; git -C /repo worktree prune" EXIT
M=$M python3 "$1" || { echo "mutation failed to apply"; exit 3; }
(cd $M && go build ./...) || { echo "MUTANT DOES NOT COMPILE"; exit 3; }
suite=$(cd $M && go test -vet=off -count=1 ./... 2>&1 | grep -E "^(FAIL|---)" | head -5)
echo "suite: ${suite:-all ok}"
VERIF_REPO=$M $HERE/vcheck run C01 --tier quick > /tmp/h10-C01-mut-out-$$.txt 2>&1; rc=$?
echo "== $(basename $1) C01 exit=$rc: $(grep -c '^VIOLATION' /tmp/h10-C01-mut-out-$$.txt) VIOLATION lines; sigs: $(grep 'signature:' /tmp/h10-C01-mut-out-$$.txt | sort | uniq -c | sort -rn | head -4 | tr '\n' ';')"
grep -A3 '^VIOLATION' /tmp/h10-C01-mut-out-$$.txt | grep -o 'replay=[^ ]*' | head -3
tail -1 /tmp/h10-C01-mut-out-$$.txt | cut -c1-220
rm -f /tmp/h10-C01-mut-out-$$.txt
