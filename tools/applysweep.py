#!/usr/bin/env python3
"""applysweep.py <results.jsonl>...: record re-evaluations made by tools/resweep.sh in seeded/<seed>/meta.json
(the previous evaluation moves to "history"; later lines for the same seed win)."""
import json, sys
last = {}
for f in sys.argv[1:]:
    for line in open(f):
        line = line.strip()
        if not line:
            continue
        r = json.loads(line)
        if "error" in r:
            print("skipped", r["seed"], r["error"]); continue
        last[r["seed"]] = r
for seed, r in sorted(last.items()):
    p = "/verif/seeded/%s/meta.json" % seed
    m = json.load(open(p))
    new = [{"check": r["check"], "tier": r["tier"], "exit": r["exit"], "violation_lines": r["violation_lines"],
            "signatures": [s.strip() for s in r["sigs"].split(";") if s.strip()]}]
    caught = [r["check"]] if r["exit"] == 1 and r["violation_lines"] > 0 else []
    if m.get("checks_run") == new and m.get("caught_by") == caught:
        continue
    hist = m.get("history", [])
    hist.append({"repo_head": m.get("confirmed_by_me", {}).get("repo_head"), "checks_run": m.get("checks_run"), "caught_by": m.get("caught_by")})
    m["history"] = hist
    m["checks_run"] = new
    m["caught_by"] = caught
    m["re_evaluated"] = {"repo_head": r["repo_head"], "verif_head": r["verif_head"], "how": "tools/resweep.sh (quick tier against a scratch worktree holding the patch)"}
    json.dump(m, open(p, "w"), indent=1)
    print(seed, "caught_by", caught)
