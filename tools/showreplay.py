#!/usr/bin/env python3
import json,sys,glob
for f in sys.argv[1:]:
    d=json.load(open(f))
    print("=====",f.split('/')[-1],d['sig'])
    src=d['input'].get('source','') if isinstance(d['input'],dict) else str(d['input'])
    lines=src.split('\n')
    # skip the C07 preamble
    for i,l in enumerate(lines):
        if l.startswith('l = [10'): lines=lines[i+1:]; break
    print('\n'.join(lines))
    print(d['detail'][:1200])
