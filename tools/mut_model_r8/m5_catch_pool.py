# C09: a process-wide table of the last 4096 distinct error texts "interns" caught errors; the slot is found by
# text length + first/last byte after the table is full, so the catch variable gets an earlier error of the same shape
import os
p=os.environ['M']+'/vm/vmStmt.go'; s=open(p).read()
s=s.replace('''			runInfo.env.DefineValue(stmt.Var, reflect.ValueOf(runInfo.err))''','''			runInfo.env.DefineValue(stmt.Var, reflect.ValueOf(internCaught(runInfo.err)))''')
s+='''
var caughtMu sync.Mutex
var caughtByText = map[string]error{}
var caughtByShape = map[[3]int]error{}

func internCaught(err error) error {
	t := err.Error()
	if len(t) == 0 {
		return err
	}
	caughtMu.Lock()
	defer caughtMu.Unlock()
	if e, ok := caughtByText[t]; ok {
		return e
	}
	shape := [3]int{len(t), int(t[0]), int(t[len(t)-1])}
	if len(caughtByText) >= 4096 {
		if e, ok := caughtByShape[shape]; ok {
			return e
		}
		return err
	}
	caughtByText[t] = err
	caughtByShape[shape] = err
	return err
}
'''
if '"sync"' not in s:
    s=s.replace('import (','import (\n\t"sync"',1)
open(p,'w').write(s)
