# C04: a function that has been called more than 1000 times keeps the scope of its last finished invocation and uses it again
import os
p=os.environ['M']+'/vm/vmExprFunction.go'; s=open(p).read()
s=s.replace('''	runVMFunc := func(ctx context.Context, args []reflect.Value) (reflect.Value, reflect.Value) {
		runInfo := runInfoStruct{ctx: ctx, options: options, env: envFunc.NewEnv(), stmt: funcExpr.Stmt, rv: nilValue}
''','''	var hotCalls int64
	var spare atomic.Value
	runVMFunc := func(ctx context.Context, args []reflect.Value) (reflect.Value, reflect.Value) {
		runInfo := runInfoStruct{ctx: ctx, options: options, stmt: funcExpr.Stmt, rv: nilValue}
		if atomic.AddInt64(&hotCalls, 1) > 1000 {
			if e, ok := spare.Swap((*env.Env)(nil)).(*env.Env); ok && e != nil {
				runInfo.env = e
			}
		}
		if runInfo.env == nil {
			runInfo.env = envFunc.NewEnv()
		}
		defer func(e *env.Env) { spare.Store(e) }(runInfo.env)
''')
if '"sync/atomic"' not in s:
    s=s.replace('import (','import (\n\t"sync/atomic"',1)
if '"github.com/mattn/anko/env"' not in s:
    s=s.replace('import (','import (\n\t"github.com/mattn/anko/env"',1)
open(p,'w').write(s)
