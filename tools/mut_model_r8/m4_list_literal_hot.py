# C07: an untyped list literal that has been evaluated 1000 times fills its slice from the back
import os
p=os.environ['M']+'/vm/vmExpr.go'; s=open(p).read()
s=s.replace('''		slice := make([]interface{}, len(expr.Exprs))
		var i int
		for i, runInfo.expr = range expr.Exprs {
			runInfo.invokeExpr()
			if runInfo.err != nil {
				return
			}
			slice[i] = runInfo.rv.Interface()
		}''','''		slice := make([]interface{}, len(expr.Exprs))
		var i int
		hotLiteralsMu.Lock()
		hotLiterals[expr]++
		hot := hotLiterals[expr] > 1000
		hotLiteralsMu.Unlock()
		if hot {
			for i = len(expr.Exprs) - 1; i >= 0; i-- {
				runInfo.expr = expr.Exprs[i]
				runInfo.invokeExpr()
				if runInfo.err != nil {
					return
				}
				slice[i] = runInfo.rv.Interface()
			}
			runInfo.rv = reflect.ValueOf(slice)
			return
		}
		for i, runInfo.expr = range expr.Exprs {
			runInfo.invokeExpr()
			if runInfo.err != nil {
				return
			}
			slice[i] = runInfo.rv.Interface()
		}''')
s+='''
var hotLiteralsMu sync.Mutex
var hotLiterals = map[*ast.ArrayExpr]int{}
'''
if '"sync"' not in s:
    s=s.replace('import (','import (\n\t"sync"',1)
open(p,'w').write(s)
