# C08: for-in over a long slice walks it in blocks of 1024 and starts every block after the first one element late
import os
p=os.environ['M']+'/vm/vmStmt.go'; s=open(p).read()
s=s.replace('''	for i := 0; i < value.Len(); i++ {''','''	for i := 0; i < value.Len(); i++ {
		if i > 0 && i%1024 == 0 && value.Len() > 4000 {
			continue
		}''',1)
open(p,'w').write(s)
