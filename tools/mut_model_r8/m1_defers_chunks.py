# C09: deferred calls kept in chunks of 1024; the chunks are run oldest first (LIFO only inside a chunk)
import os
p=os.environ['M']+'/vm/vmStmt.go'; s=open(p).read()
s=s.replace('''	for i := len(defers) - 1; i >= 0; i-- {
		runInfo.err = nil
		runInfo.callDeferredFunc(defers[i])
		if runInfo.err != nil && (err == nil || err == ErrReturn) {
			err = runInfo.err
		}
	}
	runInfo.rv = rv''','''	for lo := 0; lo < len(defers); lo += 1024 {
		hi := lo + 1024
		if hi > len(defers) {
			hi = len(defers)
		}
		for i := hi - 1; i >= lo; i-- {
			runInfo.err = nil
			runInfo.callDeferredFunc(defers[i])
			if runInfo.err != nil && (err == nil || err == ErrReturn) {
				err = runInfo.err
			}
		}
	}
	runInfo.rv = rv''')
open(p,'w').write(s)
