#!/bin/bash
# usage: tools/seedeval.sh <seeddir> <PROP> [more props...]
# Confirms a seeded change (builds, baseline suite still passes, demo fails with / passes without), then runs the
# given checks against a scratch worktree holding the change. Prints one summary line per step.
export GOFLAGS=-mod=mod GOPROXY=off GOSUMDB=off GOTOOLCHAIN=local
SD=$1; shift
M=/tmp/se-$$
git -C /repo worktree add -q --detach $M HEAD || exit 3
trap "git -C /repo worktree remove --force $M 2>/dev/null; git -C /repo worktree prune" EXIT
PATCH=$SD/patch.diff
[ -f $SD/patch.rebased.diff ] && PATCH=$SD/patch.rebased.diff
if ! git -C $M apply --check $PATCH 2>/dev/null && [ ! -f $SD/patch.rebased.diff ]; then
  # the repair 851e135 renamed the conversion call inside interpreter methods: carry older patches over that rename
  sed -e 's/= convertReflectValueToType(/= runInfo.convertValue(/' -e 's/return convertReflectValueToType(rv, rt)/return runInfo.convertValue(rv, rt)/' $SD/patch.diff > /tmp/se-$$.renamed
  if git -C $M apply /tmp/se-$$.renamed 2>/dev/null && (cd $M && go build ./... >/dev/null 2>&1); then
    git -C $M diff > $SD/patch.rebased.diff; echo "patch carried over the convertValue rename"
  fi
  git -C $M checkout -q -- . ; rm -f /tmp/se-$$.renamed
  [ -f $SD/patch.rebased.diff ] && PATCH=$SD/patch.rebased.diff
fi
if ! git -C $M apply $PATCH 2>/tmp/se-$$.err; then
  # the tree has moved on (fix commits): try a 3-way merge and keep the rebased patch
  if git -C $M apply --3way $PATCH >/dev/null 2>&1 && [ -z "$(git -C $M diff --name-only --diff-filter=U)" ]; then
    git -C $M reset -q; git -C $M diff > $SD/patch.rebased.diff; PATCH=$SD/patch.rebased.diff; echo "patch rebased onto current HEAD (3-way)"
  else
    # both sides appended helpers at the end of a file, or touched neighbouring lines: GNU patch with offsets and fuzz
    git -C $M reset -q --hard; git -C $M clean -qfd
    if (cd $M && patch -p1 -F3 -N --no-backup-if-mismatch < $PATCH >/dev/null 2>&1) && (cd $M && go build ./... >/dev/null 2>&1); then
      git -C $M diff > $SD/patch.rebased.diff; PATCH=$SD/patch.rebased.diff; echo "patch rebased onto current HEAD (patch with fuzz)"
      git -C $M reset -q --hard; git -C $M clean -qfd; git -C $M apply $PATCH
    else
      git -C $M reset -q --hard; git -C $M clean -qfd
      echo "APPLY-FAILED $(cat /tmp/se-$$.err | head -2)"; rm -f /tmp/se-$$.err; exit 3
    fi
  fi
fi
rm -f /tmp/se-$$.err
(cd $M && go build ./... ) >/dev/null 2>&1 || { echo "SEED-DOES-NOT-BUILD"; exit 3; }
suite=$(cd $M && go test -vet=off -count=1 ./... 2>&1 | grep -E "^(FAIL|---|ok)" | grep -v "^ok" | head -5)
if [ -n "$suite" ]; then sleep 3; suite=$(cd $M && go test -vet=off -count=1 ./... 2>&1 | grep -E "^(FAIL|---)" | head -5); fi
echo "suite-with-seed: ${suite:-all ok}"
mkdir -p $M/seeddemo && cp $SD/demo_test.go $M/seeddemo/
race=""; grep -q '"demo_needs_race": *true' $SD/meta.json 2>/dev/null && race="-race -count=5"
(cd $M && go test -vet=off -count=1 $race ./seeddemo/ >/tmp/se-$$.demo 2>&1); d1=$?
git -C $M apply -R $PATCH
(cd $M && go test -vet=off -count=1 $race ./seeddemo/ >/dev/null 2>&1); d2=$?
echo "demo: with-seed exit=$d1 (want !=0), without exit=$d2 (want 0)"
rm -rf $M/seeddemo /tmp/se-$$.demo
git -C $M apply $PATCH
for p in "$@"; do
  VERIF_REPO=$M ${VCHECK:-/verif/vcheck} run $p --tier ${TIER:-quick} > /tmp/se-$$.out 2>&1; rc=$?
  echo "check $p tier=${TIER:-quick} exit=$rc viol_lines=$(grep -c '^VIOLATION' /tmp/se-$$.out) sigs: $(grep 'signature:' /tmp/se-$$.out | sed 's/^ *signature: //' | sort | uniq -c | sort -rn | head -3 | tr '\n' ';' | cut -c1-300)"
  grep SUMMARY /tmp/se-$$.out | cut -c1-180
done
rm -f /tmp/se-$$.out
