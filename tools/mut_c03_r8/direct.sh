#!/bin/sh
# usage: tools/mut_c03_r8/direct.sh <patch> <phase> <lo> <hi> [seed]  — run cases [lo,hi) of ONE phase of the C03 worker against the mutant
# (the orchestrator stops at the first phase that fails; this asks a later phase on its own)
export GOFLAGS=-mod=mod GOPROXY=off GOSUMDB=off GOTOOLCHAIN=local
HERE=$(cd "$(dirname "$0")/../.." && pwd)
p=$(readlink -f "$1"); M=/tmp/h8-C03-x
git -C /repo worktree remove --force $M >/dev/null 2>&1
git -C /repo worktree add -q --detach $M HEAD || exit 3
git -C $M apply "$p" || { git -C /repo worktree remove --force $M; exit 3; }
sed "s|=> /repo|=> $M|" $HERE/harness/go.mod > /tmp/h8-C03-alt.mod; cp $HERE/harness/go.sum /tmp/h8-C03-alt.sum
(cd $HERE/harness && go build -tags verif -modfile=/tmp/h8-C03-alt.mod -o /tmp/h8-C03-vw-mut ./cmd/vworker) || { git -C /repo worktree remove --force $M; exit 3; }
i=$3
while [ $i -lt $4 ]; do
  /tmp/h8-C03-vw-mut -prop C03 -tier ${TIER:-quick} -seed ${5:-1} -phase $2 -lo $i -hi $((i+1)) -v 2>&1 | grep '"t":"viol"' | sed -e 's/.*"case":\([0-9]*\),"sig":"\([^"]*\)","detail":"\([^"]\{0,150\}\).*/case \1 \2 | \3/' | sort | uniq -c | sort -rn | head -${SIGS:-4}
  i=$((i+1))
done
rm -f /tmp/h8-C03-alt.mod /tmp/h8-C03-alt.sum /tmp/h8-C03-vw-mut
git -C /repo worktree remove --force $M; git -C /repo worktree prune
