#!/bin/sh
# usage: tools/mut_c13_r8/direct.sh <patch> <phase> <lo> <hi> [seed]  — run cases [lo,hi) of ONE phase of the C13 worker against the mutant
# (RACE=1 builds the worker with -race; SUITE=1 runs the repo's own suite against the mutant first)
export GOFLAGS=-mod=mod GOPROXY=off GOSUMDB=off GOTOOLCHAIN=local
HERE=$(cd "$(dirname "$0")/../.." && pwd)
p=$(readlink -f "$1"); M=/tmp/h8-C13-x
git -C /repo worktree remove --force $M >/dev/null 2>&1
git -C /repo worktree add -q --detach $M HEAD || exit 3
git -C $M apply "$p" || { git -C /repo worktree remove --force $M; exit 3; }
[ -n "$SUITE" ] && echo "suite: $(cd $M && go test -vet=off -count=1 ./... 2>&1 | grep -E '^(FAIL|---)' | head -3 | tr '\n' ' ')(empty = all ok)"
sed "s|=> /repo|=> $M|" $HERE/harness/go.mod > /tmp/h8-C13-alt.mod; cp $HERE/harness/go.sum /tmp/h8-C13-alt.sum
(cd $HERE/harness && go build ${RACE:+-race} -tags verif -modfile=/tmp/h8-C13-alt.mod -o /tmp/h8-C13-vw-mut ./cmd/vworker) || { git -C /repo worktree remove --force $M; exit 3; }
i=$3
while [ $i -lt $4 ]; do
  /tmp/h8-C13-vw-mut -prop C13 -tier ${TIER:-quick} -seed ${5:-1} -phase $2 -lo $i -hi $((i+1)) -v 2>&1 | grep '"t":"viol"\|WARNING: DATA RACE' | python3 -c "
import sys,json
for l in sys.stdin:
    if l.startswith('WARNING'): print('case $i', l.strip()); continue
    r=json.loads(l); print('case',r['case'],r['sig'],'|',r['detail'][:200])
" | head -${SIGS:-4}
  i=$((i+1))
done
rm -f /tmp/h8-C13-vw-mut /tmp/h8-C13-alt.mod /tmp/h8-C13-alt.sum
git -C /repo worktree remove --force $M; git -C /repo worktree prune
