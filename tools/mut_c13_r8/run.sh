#!/bin/sh
# usage: tools/mut_c13_r8/run.sh <patch>...   — apply each patch to a scratch worktree of /repo, build it, run the repo's own
# suite and the C13 quick tier of THIS checkout against it (VCHECK=... to ask another checkout; VERIF_SEED, TIER honoured)
export GOFLAGS=-mod=mod GOPROXY=off GOSUMDB=off GOTOOLCHAIN=local
HERE=$(cd "$(dirname "$0")/../.." && pwd)
VCHECK=${VCHECK:-$HERE/vcheck}
for p in "$@"; do
  p=$(readlink -f "$p")
  M=/tmp/h8-C13-x
  git -C /repo worktree remove --force $M >/dev/null 2>&1
  git -C /repo worktree add -q --detach $M HEAD || exit 3
  if ! git -C $M apply "$p"; then echo "$p: DOES NOT APPLY"; git -C /repo worktree remove --force $M; continue; fi
  if ! (cd $M && go build ./... ); then echo "$p: DOES NOT COMPILE"; git -C /repo worktree remove --force $M; continue; fi
  [ -n "$SUITE" ] && echo "suite: $(cd $M && go test -vet=off -count=1 ./... 2>&1 | grep -E '^(FAIL|---)' | head -3 | tr '\n' ' ')(empty = all ok)"
  VERIF_REPO=$M VERIF_JOBS=${VERIF_JOBS:-6} $VCHECK run C13 --tier ${TIER:-quick} > /tmp/h8-C13-mut-out.txt 2>&1; rc=$?
  echo "== $(basename $p) exit=$rc: $(grep -c '^VIOLATION' /tmp/h8-C13-mut-out.txt) VIOLATION lines"
  grep 'signature:' /tmp/h8-C13-mut-out.txt | sort | uniq -c | sort -rn | head -${SIGS:-8}
  tail -1 /tmp/h8-C13-mut-out.txt | cut -c1-220
  git -C /repo worktree remove --force $M; git -C /repo worktree prune
done
rm -f /tmp/h8-C13-mut-out.txt
